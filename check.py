#!/opt/veriftools/pyvenv/bin/python
"""Entry point: check.py --property Cxx --tier quick|thorough   (see DESIGN.md section 2).

Reads /repo/nmfu.py (or $NMFU_SOURCE) afresh on every run; never imports or executes it.
Exit 0 = held (KNOWN-FINDING lines for listed findings); 1 = VIOLATION; 2 = ANALYSIS-ERROR.
"""
import argparse, importlib, os, sys, time, traceback

sys.path.insert(0, os.path.dirname(os.path.abspath(__file__)))
from nmfulint import core
from nmfulint.context import Ctx


def run_property(prop, tier, source_text=None, quiet=False):
    """Run one property's rules on source text; returns (exit_code, report). Used by the CLI and by the self-test."""
    mod = importlib.import_module(f"nmfulint.rules.{prop.lower()}")
    rep = core.Report(prop)
    ctx = Ctx(source_text)
    mod.run(ctx, rep, tier)
    return mod, rep


def main():
    ap = argparse.ArgumentParser()
    ap.add_argument("--property", required=True)
    ap.add_argument("--tier", default=os.environ.get("VERIF_TIER", "quick"), choices=["quick", "thorough"])
    a = ap.parse_args()
    prop = a.property.upper()
    t0 = time.time()
    try:
        mod, rep = run_property(prop, a.tier)
        if a.tier == "thorough":
            from nmfulint import selftest
            selftest.run_battery(prop, rep)
        code = core.finish(prop, a.tier, rep, t0, mod.EXPLANATION, mod.NOT_DECIDED, mod.ENGINES)
    except core.AnalysisError as e:
        print(f"ANALYSIS-ERROR property={prop}: {e}")
        sys.exit(2)
    except Exception:
        traceback.print_exc()
        print(f"ANALYSIS-ERROR property={prop}: checker crashed (see traceback)")
        sys.exit(2)
    sys.exit(code)


if __name__ == "__main__":
    main()
