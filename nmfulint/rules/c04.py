"""C04 - feed and end always return: no input makes a generated parser spin (DESIGN.md section 3, C04)."""
import ast, re
from ..core import AnalysisError
from ..srcmodel import walk_no_nested, calls_in, strip_doc, raised_class
from ..guards import check_refusal, find_ifs, arm_refuses
from ..tmpl import transition_body_paths, action_contexts, feasible_action_path
from ..cevents import events_of
from .tbrows import check_row

EXPLANATION = (
    "The whole property needs the machine (acyclicity of non-consuming moves) and is NOT decided. Decided necessary "
    "conditions: C04.a compile() runs the fall-through cycle check after the optimisation loop on every normal path and "
    "nothing rewrites the machine afterwards. C04.b the structural refusals exist and raise diagnosed errors: empty loop / "
    "foreach / try body, ambiguous loop exit, unreachable code after a loop, optional body matching nothing. C04.c a "
    "handler never handles its own body, for every error reason: at conversion time the handler block and the "
    "continuation get the caller's handler map while only the body gets the extended copy; at parse time (where appends "
    "capture their out-of-space target) the handler map is saved as a copy, extended for the body only, and restored "
    "before the catch block is parsed. C04.d the cycle check's case analysis is total (condition points and plain states) "
    "and treats only always-leaving actions as cycle breakers. C04.e C-level re-dispatch always happens at a freshly "
    "stored state: every non-consuming goto is preceded by a state store on its emission path, so a non-consuming loop in "
    "C is a non-consuming cycle in the DFA (which C04.a polices). C04.f a freeing delete resets the length counter (an "
    "overflow handler that empties the buffer must make progress).")
NOT_DECIDED = ("acyclicity of the non-consuming moves of each compiled machine; cycles through MAY_GOTO_TARGET overrides (out-of-space redirects), which the "
               "compiler's own check does not follow; termination of the compiler itself (C18)")
ENGINES = ["E1 source model", "refusal-guard recogniser", "E5/E6 transition-body rows"]


def _cycle_check_starts(vf):
    """which transitions the cycle check starts a walk from: {'fallthrough'} (old form: `if not transition.is_fallthrough: continue`) or
    {'fallthrough', 'end'} (transitions listing End start a walk for the symbol End only); derived from the `continue` guard of the inner loop"""
    inner = next((n for n in ast.walk(vf) if isinstance(n, ast.For) and ast.unparse(n.iter) == "state.transitions"), None)
    if inner is None or not inner.body:
        return set()
    first = next((x for x in inner.body if isinstance(x, ast.If)), None)      # (an initialisation such as `overflowing = []` may precede the chain)
    if first is None or any(not (isinstance(x, ast.Assign) and isinstance(x.value, (ast.List, ast.Constant))) for x in inner.body[:inner.body.index(first)]):
        return set()
    if ast.unparse(first.test) == "not transition.is_fallthrough" and len(first.body) == 1 and isinstance(first.body[0], ast.Continue) and not first.orelse:
        return {"fallthrough"}
    kinds = set()
    if ast.unparse(first.test) == "transition.is_fallthrough" and [ast.unparse(x) for x in first.body] == ["symbols = transition.on_values"]:
        kinds.add("fallthrough")
        nxt = first.orelse[0] if len(first.orelse) == 1 and isinstance(first.orelse[0], ast.If) else None
        if nxt is not None and ast.unparse(nxt.test) in ("DFTransition.End in transition.on_values", "DFTransition.End in transition.on_values and (not transition.error_handling)") \
                and [ast.unparse(x) for x in nxt.body] == ["symbols = [DFTransition.End]"]:
            rest = nxt.orelse
            if len(rest) == 1 and isinstance(rest[0], ast.Continue):
                kinds.add("end")
            elif any(isinstance(x, ast.If) and len(x.body) == 1 and isinstance(x.body[0], ast.Continue) for x in rest):
                # third start kind (C04.d2): consuming transitions that carry an appended match - everything else is still skipped
                kinds.add("end")
                kinds.add("append")
    return kinds


def run(ctx, rep, tier):
    model, E = ctx.model, ctx.emit

    # ------------------------------------------------------------------ C04.a must pass through
    rep.rule("C04.a", "DfaCompileCtx.compile: _verify_fallthrough_loop is called after the optimisation loop on the normal path; nothing rewrites self.dfa afterwards")
    fn = model.func("DfaCompileCtx.compile")
    body = strip_doc(fn.body)
    idx_v = [i for i, st in enumerate(body) if isinstance(st, ast.Expr) and isinstance(st.value, ast.Call) and ast.unparse(st.value.func) == "self._verify_fallthrough_loop"]
    idx_opt = [i for i, st in enumerate(body) if any(isinstance(n, ast.Call) and isinstance(n.func, ast.Attribute) and n.func.attr.startswith("_optimize_") for n in ast.walk(st))]
    idx_asg = [i for i, st in enumerate(body) if any(isinstance(n, (ast.Assign, ast.AugAssign)) and any(ast.unparse(t).startswith("self.dfa") for t in (n.targets if isinstance(n, ast.Assign) else [n.target]))
                                                   for n in ast.walk(st))]
    ok = len(idx_v) == 1 and idx_opt and max(idx_opt) < idx_v[0] and (not idx_asg or max(idx_asg) < idx_v[0]) and \
        not any(isinstance(n, ast.Return) for st in body[:idx_v[0]] for n in ast.walk(st))
    rep.check(ok, "C04.a", "DfaCompileCtx.compile", "verify after optimise, top level, nothing after",
              f"verification at statement(s) {idx_v}, optimisation at {idx_opt}, machine assignments at {idx_asg}: the fall-through cycle check no longer sees the final machine on every path")
    later = body[idx_v[0] + 1:] if idx_v else []
    rep.check(not any(isinstance(n, ast.Call) and isinstance(n.func, ast.Attribute) and (n.func.attr.startswith("_optimize_") or n.func.attr in ("append_after", "add")) for st in later for n in ast.walk(st)),
              "C04.a", "DfaCompileCtx.compile", "no rewriting after verification", "the machine is modified after the cycle check")
    vf = model.func("DfaCompileCtx._verify_fallthrough_loop")
    check_refusal(rep, model, "C04.a", "DfaCompileCtx._verify_fallthrough_loop", r"^(state|\(state, 0\)) in visited$", "a fall-through path returning to its own state is refused",
                  "a non-consuming cycle found by the check must be refused")
    vs = ast.unparse(vf)
    start_kinds = _cycle_check_starts(vf)
    rep.check("for state in self.dfa.states:" in vs and "for transition in state.transitions:" in vs and "fallthrough" in start_kinds, "C04.a",
              "DfaCompileCtx._verify_fallthrough_loop", "starts from every fall-through transition of every state", "the cycle check no longer starts from every fall-through transition")

    # ------------------------------------------------------------------ C04.b structural refusals
    rep.rule("C04.b", "structural refusals: empty loop / foreach / try body, ambiguous loop, unreachable code after a loop, optional matching nothing")
    check_refusal(rep, model, "C04.b", "LoopNode.convert", r"^self\.child_node is None$", "empty loop body", "a loop with no matching body goes round without consuming input")
    check_refusal(rep, model, "C04.b", "ForeachNode.convert", r"^self\.child_node is None$", "empty foreach body", "empty foreach body must be refused")
    check_refusal(rep, model, "C04.b", "TryExceptNode.convert", r"^self\.body is None$", "empty try body", "empty try body must be refused")
    check_refusal(rep, model, "C04.b", "LoopNode.convert", r"^transition\.target in sub_dfa\.accepting_states$", "ambiguous loop exit", "loop exit ambiguity must be refused")
    check_refusal(rep, model, "C04.b", "LoopNode.convert", r"^self\.next and \(?not should_try_to_append\)?$", "unreachable code after a loop without break", "code after a loop that never breaks must be refused")
    check_refusal(rep, model, "C04.b", "OptionalNode.convert", r"^sub_dfa\.starting_state in sub_dfa\.accepting_states$", "optional body can match nothing", "an optional matching the empty string must be refused")
    check_refusal(rep, model, "C04.b", "ActionNode.convert", r".*", "a bare action node left in the AST", "", floor=0)
    an = model.func("ActionNode.convert")
    rep.check(len(strip_doc(an.body)) == 1 and isinstance(an.body[-1], ast.Raise) and raised_class(an.body[-1]) == "IllegalASTStateError", "C04.b", "ActionNode.convert",
              "an action that no match adopted is refused", "orphan action nodes are no longer refused")
    # loop back-edge is a fallthrough only from accept states' error transitions / empty accept states
    lc = ast.unparse(model.func("LoopNode.convert"))
    rep.check(model.has("LoopNode.convert", "trans.handles_else(False).fallthrough().to(sub_dfa.starting_state).attach(*self.loop_start_actions)") and model.has("LoopNode.convert", "if trans.error_handling:"), "C04.b", "LoopNode.convert",
              "loop back-edge: only the end states' no-match transitions are redirected to the body start", "loop back-edge construction changed")

    # ------------------------------------------------------------------ C04.c handler never handles its own body
    rep.rule("C04.c", "try/catch: only the body sees the extended handler map - at conversion time and at parse time")
    tc = model.func("TryExceptNode.convert")
    hm = tc.args.args[1].arg
    body = strip_doc(tc.body)
    cp = [st for st in body if isinstance(st, ast.Assign) and isinstance(st.value, ast.Call) and ast.unparse(st.value) in (f"{hm}.copy()", f"dict({hm})")]
    if len(cp) != 1:
        rep.bad("C04.c", "TryExceptNode.convert", "body handler map is a copy", "the body's handler map is no longer a fresh copy of the caller's map: updating it changes the caller's handlers")
        bh = None
    else:
        bh = ast.unparse(cp[0].targets[0])
        rep.ok("C04.c", "TryExceptNode.convert", "body handler map is a copy")
        upd = [st for st in body if isinstance(st, ast.Expr) and ast.unparse(st.value) == f"{bh}.update({{x: self.handler_node for x in self.handles}})"]
        rep.check(len(upd) == 1, "C04.c", "TryExceptNode.convert", "copy extended with {reason: handler_node for the handled reasons}", "extension of the body's handler map changed")
    convs = {}
    for c in calls_in(tc, nested=False):
        if isinstance(c.func, ast.Attribute) and c.func.attr == "convert" and c.args:
            convs[ast.unparse(c.func.value)] = ast.unparse(c.args[0])
    rep.check(convs.get("self.body") == bh and bh is not None, "C04.c", "TryExceptNode.convert", "body converted with the extended map", f"body converted with {convs.get('self.body')}")
    rep.check(convs.get("self.handler") == hm, "C04.c", "TryExceptNode.convert", "catch block converted with the caller's map",
              f"the catch block is converted with `{convs.get('self.handler')}`: a mismatch inside the handler re-enters the handler (non-consuming cycle)")
    rep.check(convs.get("self.next") == hm, "C04.c", "TryExceptNode.convert", "continuation converted with the caller's map", f"continuation converted with {convs.get('self.next')}")
    # parse time
    ps = model.func("ParseCtx._parse_stmt")
    from ..dispatch import dispatch_on
    arm = dispatch_on(ps.body, "stmt.data", ctx.module_str_lists()).arm_for("try_stmt")
    if arm is None:
        raise AnalysisError("_parse_stmt: try_stmt arm not found")
    pos = {}
    for i, st in enumerate(arm):
        src = ast.unparse(st)
        if isinstance(st, ast.Assign) and ast.unparse(st.value) in ("self.exception_handlers.copy()", "dict(self.exception_handlers)"):
            pos["save"] = i
            saved = ast.unparse(st.targets[0])
        elif isinstance(st, ast.Assign) and ast.unparse(st.value) == "self.exception_handlers":
            pos["save_alias"] = i
        if "self.exception_handlers.update(" in src:
            pos["update"] = i
            pos["update_ok"] = "x: try_node.get_handler() for x in catch_handles" in src
        if "try_node.set_body(" in src:
            pos["body"] = i
        if "try_node.set_handler(" in src:
            pos["handler"] = i
        if isinstance(st, ast.Assign) and ast.unparse(st.targets[0]) == "self.exception_handlers":
            pos["restore"] = i
            pos["restore_val"] = ast.unparse(st.value)
    rep.check("save" in pos and "save_alias" not in pos, "C04.c", "ParseCtx._parse_stmt", "enclosing handler map saved as a copy",
              "the enclosing handler map is saved by reference: the update for this try leaks into the enclosing scope - appends textually before the try capture its handler")
    ok = all(k in pos for k in ("save", "update", "body", "restore", "handler")) and pos["save"] < pos["update"] < pos["body"] < pos["restore"] < pos["handler"] and pos.get("update_ok") \
        and pos.get("restore_val") == (saved if "save" in pos else None)
    rep.check(ok, "C04.c", "ParseCtx._parse_stmt", "save < extend < parse body < restore < parse catch block",
              f"order is {dict((k, v) for k, v in pos.items() if isinstance(v, int))}: the catch block is parsed under its own try's handler map, so an append inside "
              "`catch (outofspace)` targets the handler it sits in - feed() spins once the buffer is full")
    pa = ast.unparse(model.func("ParseCtx._parse_assign_stmt"))
    rep.check(pa.count("self.exception_handlers[ErrorReasons.OUT_OF_SPACE]") == 2, "C04.c", "ParseCtx._parse_assign_stmt", "appends capture the innermost out-of-space handler at parse time", "append out-of-space target changed")

    # ------------------------------------------------------------------ C04.d verifier's case analysis
    rep.rule("C04.d", "the cycle check follows condition points and plain states, and follows every step to where its actions can send the machine; only actions that always leave end a step early")
    vf = model.func("DfaCompileCtx._verify_fallthrough_loop")
    members = {n for n, _ in model.enum_members("ActionOverrideMode")}
    lt = model.functions.get("DfaCompileCtx._verify_fallthrough_loop.leads_to")
    if lt is None:
        cons = model.functions.get("DfaCompileCtx._verify_fallthrough_loop.consider")
        csrc = ast.unparse(cons.body[-1]) if cons is not None else "<no successor function>"
        rep.bad("C04.d", "DfaCompileCtx._verify_fallthrough_loop", "successors of a step = targets its actions can send the machine to (+ its own target unless one always leaves)",
                f"the walk decides per transition with `{csrc[:160]}`: a transition whose action ALWAYS leaves elsewhere (a break) is dropped from the walk instead of being followed "
                "to where the action goes, and targets an action only MAY leave for (a break under an if) are not followed: `loop { loop { break; \"x\"; } }` and "
                "`loop A { loop B { if x == 1 { break B; } \"a\"; x = 1; } }` are accepted and feed() spins", line=vf.lineno)
    else:
        lsrc = ast.unparse(lt)
        modes = set(re.findall(r"ActionOverrideMode\.(\w+)", lsrc))
        rep.check(modes <= members, "C04.d", "DfaCompileCtx._verify_fallthrough_loop.leads_to", "names existing override modes", f"unknown modes {sorted(modes - members)}")
        from ..pat import shape
        want = ("targets = []\nfor x in transition.actions:\n    if x.get_target_override_mode() != ActionOverrideMode.NONE:\n        targets.extend(x.get_target_override_targets())\n"
                "    if x.get_target_override_mode() in [ActionOverrideMode.ALWAYS_GOTO_OTHER, ActionOverrideMode.ALWAYS_GOTO_UNDEFINED]:\n        return targets\n"
                "return targets + [transition.target]")
        body = "\n".join(ast.unparse(x) for x in strip_doc(lt.body))
        rep.check(body == want, "C04.d", "DfaCompileCtx._verify_fallthrough_loop.leads_to",
                  "every action's override targets are successors; the step's own target too unless an action always leaves (in action order)",
                  f"successor function is `{body[:300]}`: actions that may or always leave (conditional break, break) must be followed, and only an action that ALWAYS leaves hides the own target")
    aux = model.func("DfaCompileCtx._verify_fallthrough_loop.aux")
    asrc = ast.unparse(aux)
    old_walk = "real_target = x[transition.on_values]" in asrc and "real_target.is_fallthrough and consider(real_target)" in asrc
    AUX = "DfaCompileCtx._verify_fallthrough_loop.aux"
    # the walk as it stands since F-117 / F-118: one symbol at a time, every successor visited with the room known behind the step
    new_walk = model.has(AUX, "steps = x.transitions") and model.has(AUX, "real_target = x[symbol]") and \
        model.has(AUX, "steps = [real_target] if real_target and stays_in_place(real_target) else []") and \
        model.has(AUX, "for step in steps:\n    behind = room_behind(step, room) if overflowing else 0\n    for target in leads_to(step):\n        visit(target, symbol, behind)")
    vis = model.functions.get("DfaCompileCtx._verify_fallthrough_loop.visit")
    new_walk = new_walk and vis is not None and "\n".join(ast.unparse(x) for x in strip_doc(vis.body)) == \
        "if (target, room) not in visited:\n    visited.add((target, room))\n    aux(target, symbol, room)"
    rep.check("isinstance(x, DFConditionPoint)" in asrc and (old_walk or new_walk), "C04.d", "DfaCompileCtx._verify_fallthrough_loop.aux",
              "condition points: every branch; plain states: the transition taken for the same symbol, if it does not consume; every successor is walked", "cycle walk changed")

    # d4 (F-117): the unconsumed byte is ONE byte - each symbol of the starting transition is walked on its own
    rep.rule("C04.d4", "the cycle check walks each symbol of a non-consuming transition on its own (a set lookup answers None as soon as a state on the way treats part of the "
                       "set differently: asked about all symbols at once the walk ends there and the cycle for one of them is missed)")
    VF = "DfaCompileCtx._verify_fallthrough_loop"
    per_symbol = [n for n in ast.walk(vf) if isinstance(n, ast.For) and ast.unparse(n.iter) == "symbols" and isinstance(n.target, ast.Name)]
    ok4 = False
    if len(per_symbol) == 1:
        loop = per_symbol[0]
        sym = loop.target.id
        body = ast.unparse(ast.Module(body=loop.body, type_ignores=[]))
        resets = any(isinstance(st, ast.Assign) and ast.unparse(st.targets[0]) == "visited" and ast.unparse(st.value) == "set()" for st in loop.body)
        refuses = any(isinstance(n, ast.Raise) for st in loop.body for n in ast.walk(st))
        single = re.search(r"\bx\[(\w+)\]", asrc)
        ok4 = resets and refuses and f"aux(state, {sym}, 0)" in body and single is not None and single.group(1) == aux.args.args[1].arg and "x[symbols]" not in asrc
    rep.check(ok4, "C04.d4", VF, "for each symbol: fresh visited set, walk with that symbol alone, refusal inside the loop",
              "the walk asks the states on the way about the whole symbol list of the starting transition at once (`x[symbols]`): DFState.__getitem__ answers None when a state splits "
              "the set, the walk stops, and `loop { try { /[^qr]/; } catch (nomatch) { case { \"r\" -> { } else -> { } } } }` is accepted - feed() never returns on a q")

    # d2 (F-25, repaired): the redirect of an appended match that does not fit does not consume although its transition does
    rep.rule("C04.d2", "the cycle check follows the non-consuming redirect of an appended match that overflows (a consuming transition whose AppendTo may leave for the out-of-space handler); only a step that deletes that buffer ends the walk")
    VF = "DfaCompileCtx._verify_fallthrough_loop"
    okd2 = model.has(VF, "overflowing = [sub for action in transition.actions for sub in action.all_subactions() if isinstance(sub, AppendTo)]\nif not overflowing:\n    continue\nsymbols = transition.on_values") and \
        model.has(VF, "if overflowing:\n    for handler in [target for append in overflowing for target in append.get_target_override_targets()]:\n        visit(handler, symbol, 0)\nelse:\n    aux(state, symbol, 0)") and \
        model.has(VF, "if (state, 0) in visited:\n    raise IllegalDFAStateError($$m, transition)")
    rep.check(bool(okd2), "C04.d2", VF, "a consuming transition carrying an appended match starts a walk at the append's handler(s), for the transition's symbols",
              "an append that overflows stores its out-of-space target and re-dispatches WITHOUT consuming the byte, but the cycle check only walks non-consuming transitions: "
              "`loop { try { s += /./; } catch (outofspace) { } }` is accepted and feed() spins once the buffer is full")
    # d5 (F-118): how much room the handler makes is followed along the walk
    rep.rule("C04.d5", "room accounting of the cycle check: a step makes room only through an action performed whatever the outputs hold (a delete or a constant assignment that is "
                       "not under an if), by the usable size minus what the assignment stores; every character appended behind it takes one byte again; the append that did not "
                       "fit is a cycle exactly when the walk is back at it with no room; another appended match into the still full buffer hands the byte on to its own handler")
    rb = model.functions.get(VF + ".room_behind")
    if rb is None:
        mr = model.functions.get(VF + ".makes_room")
        rep.bad("C04.d5", VF, "room known behind a step",
                "a step counts as making room as soon as any sub-action - also one under an if, also one followed by appends that fill the buffer again - deletes the buffer"
                + (f" (`{ast.unparse(mr.body[-1])[:140]}`)" if mr is not None else "") + ", and a constant assignment never does: `catch (outofspace) { if c == 1 { delete s; } }` and "
                "`catch (outofspace) { delete s; s += [65]; s += [66]; }` (str[3]) are accepted and feed() spins; `catch (outofspace) { s = \"\"; }` is refused below -O2 and accepted above")
    else:
        RB = VF + ".room_behind"
        rsrc = ast.unparse(rb)
        loop = [n for n in rb.body if isinstance(n, ast.For)]
        top_level = len(loop) == 1 and ast.unparse(loop[0].iter) == "step.actions" and isinstance(loop[0].target, ast.Name)
        act = loop[0].target.id if top_level else "action"
        makes = [n for n in ast.walk(rb) if isinstance(n, ast.Assign) and ast.unparse(n.targets[0]) == rb.args.args[1].arg and not isinstance(n.value, ast.Call)]
        rep.check(top_level and model.has(RB, f"if isinstance({act}, DeleteBuf) and {act}.into_storage is storage:\n    room = capacity\nelif isinstance({act}, SetToStr) and {act}.into_storage is storage:\n"
                                              f"    room = capacity - len({act}.value_expr)\nelse:\n    room -= sum((1 for sub in {act}.all_subactions() if isinstance(sub, AppendCharTo) and sub.into_storage is storage))"),
                  "C04.d5", RB, "room is made by a top-level delete (usable size) / constant assignment (usable size - length) of that buffer only; appended characters, also conditional ones, take a byte each",
                  f"room accounting changed: `{rsrc[:400]}` - a delete under an if is not performed for every value of the outputs; an assignment that fills the buffer makes no room; "
                  "characters appended behind the delete fill it again")
        rep.check(ast.unparse(rb.body[-1]) == "return max(room, 0)", "C04.d5", RB, "room never goes below none", "the room behind a step is no longer clamped at zero: (state, 0) is never revisited")
        # capacity: every assignment to `capacity` in the check; a string's is its usable size, a raw output's the size of its C type where known (F-129); "unbounded" only as the fallback
        caps = [n for n in ast.walk(model.func(VF)) if isinstance(n, ast.Assign) and len(n.targets) == 1 and ast.unparse(n.targets[0]) == "capacity"]
        vals = [ast.unparse(n.value) for n in caps]
        str_ok = any(v == "storage.effective_string_size()" or v.startswith("storage.effective_string_size() if storage is not None and storage.holds_a(OutputStorageType.STR)") for v in vals)
        rep.check(str_ok, "C04.d5", VF, "the room a delete makes is the usable size (terminator reserved)", "the capacity the room accounting starts from is not the usable size of the string: an assignment of "
                  "size-1 characters to a terminated string leaves no room, yet counts as making some")
        raw_ok = any("_get_maxval_hint_for_raw_type(storage.raw_underlying)" in v for v in vals)
        rep.check(raw_ok, "C04.d5", VF, "a raw output of a known C type has the capacity of that type",
                  "raw outputs are counted as unbounded (2^30 bytes): after a `delete r` any number of appended characters still 'leave room' - `out raw{uint8_t} r; loop { try { r += /a+/; \"b\"; } "
                  "catch (outofspace) { delete r; r += [1]; } }` is accepted and feed() spins on \"aa\" (the str[2] twin is refused)")
        rep.check(model.has(VF, "storage = overflowing[0].into_storage if overflowing and all((append.into_storage is overflowing[0].into_storage for append in overflowing)) else None"), "C04.d5", VF,
                  "room is only accounted for one buffer: the one every overflowing append of the transition writes", "the buffer the room accounting follows changed")
        rep.check(model.has(AUX, "if real_target and (not steps) and overflowing and (room == 0):\n    for append in (sub for action in real_target.actions for sub in action.all_subactions() if isinstance(sub, AppendTo) and sub.into_storage is storage):\n"
                                 "        for handler in append.get_target_override_targets():\n            visit(handler, symbol, room)"), "C04.d5", AUX,
                  "an appended match into the same, still full buffer met on the way hands the byte to its own handler (walked, byte unconsumed)",
                  "a consuming transition that appends to the buffer that is still full ends the walk although it leaves for its own out-of-space handler with the byte unconsumed: "
                  "`try { s += \"a\"; \"x\"; } catch (outofspace) { try { s += \"a\"; \"y\"; } catch (outofspace) { } }` in a loop spins")

    # d3 (F-78): a matched `end` pattern consumes nothing - end() goes on from its target with end-of-input still ahead
    rep.rule("C04.d3", "the cycle check treats a transition that lists End as a non-consuming step for end-of-input (end() re-dispatches after a matched `end` pattern)")
    sip = model.functions.get("DfaCompileCtx._verify_fallthrough_loop.stays_in_place")
    ok = "end" in start_kinds and sip is not None and \
        ast.unparse(sip.body[-1]) in ("return t.is_fallthrough or (symbols == [DFTransition.End] and DFTransition.End in t.on_values)",
                                      "return t.is_fallthrough or (symbols == [DFTransition.End] and DFTransition.End in t.on_values and (not t.error_handling))") and ("real_target = x[symbols]" in asrc or "real_target = x[symbol]" in asrc)
    redispatch = any(isinstance(n, ast.Constant) and n.value == "goto repeatswitch;" for n in ast.walk(model.func("CodegenCtx._generate_end_switch_body")))
    esb = ast.unparse(model.func("CodegenCtx._generate_end_switch_body"))
    cg_nonerr = "matched_end_pattern = DFTransition.End in unconditional_end_transition.on_values and (not unconditional_end_transition.error_handling)" in esb
    cc_nonerr = sip is not None and "not t.error_handling" in ast.unparse(sip.body[-1])
    if redispatch and ok:
        rep.check(cg_nonerr == cc_nonerr, "C04.d3", "DfaCompileCtx._verify_fallthrough_loop", "the cycle check and end() agree on which End-listing transitions make end() go on (error paths: neither)",
                  "end() and the cycle check disagree on whether an error path that lists End (a wait sending the regex's end-of-input exclusion back to its start) makes end() go on: "
                  "either `wait /./;` is refused under EOF support, or end() re-dispatches from the wait's start for ever")
    rep.check(ok or not redispatch, "C04.d3", "DfaCompileCtx._verify_fallthrough_loop", "walks also start at / pass through transitions listing End, for the symbol End only",
              "end() goes on dispatching after a matched `end` pattern, but the cycle check does not treat that step as non-consuming: `loop { case { \"a\" -> {} end -> { yield Y; } } }` "
              "is accepted and end() returns the yield code for ever")
    rep.check(ok, "C04.d3", "DfaCompileCtx._verify_fallthrough_loop", "zero-width loops at end-of-input are refused",
              "`loop { case { \"a\" -> {} end -> { yield Y; } } }` goes round at end-of-input without ever finishing (its `else` twin is refused as an infinite loop): "
              "with the optimiser's merged yield, end() returns the yield code for ever")

    # ------------------------------------------------------------------ C04.e re-dispatch at a stored state
    rep.rule("C04.e", "every non-consuming goto (repeatswitch / fall_N / skipaction) is preceded by a state store on its emission path")
    n = 0
    for tb in transition_body_paths(ctx):
        row, probs = check_row(tb)
        evs = tb.events
        if tb.get("LEAVES") is True and tb.get("NOOVERRIDE") is True:
            continue     # infeasible (the flag is set only for an action whose override mode is not NONE: check_leaves_flag)
        for i, e in enumerate(evs):
            if e.kind == "GOTO" and e.a in ("repeatswitch", "fall") and not any(x.kind == "ADV" for x in evs[:i]):
                n += 1
                if tb.get("INSTATES") is False and tb.get("LEAVES") is True:
                    # the transition's own target is not part of the machine, so some action always leaves (dfs skips a target only then: C05.d); control reaches this goto
                    # only through the skip label, i.e. from an action template that jumped - and those store the state before they jump (second half of this rule)
                    rep.check(e.a == "repeatswitch", "C04.e", "CodegenCtx._generate_transition_body", f"{e.a}: {tb.valuation_str()} (state stored by the action that jumped)",
                              "a direct jump to the index of a state that is not part of the machine")
                    continue
                rep.check(any(x.kind == "SETSTATE" for x in evs[:i]), "C04.e", "CodegenCtx._generate_transition_body", f"{e.a}: {tb.valuation_str()}",
                          "a non-consuming goto is emitted without storing the new state first: the C loops on the old state although the DFA moved on")
    actx = action_contexts(ctx)
    for cl in [c for c in model.concrete_subclasses("Action") if c != "Action"]:
        fp = E.enumerate("CodegenCtx._generate_action_implementation", classes={"action": cl})
        for p in fp.paths:
            if p.end and p.end[0] == "raise" or not feasible_action_path(p.valuation(), actx):
                continue
            evs = events_of(fp.lines(p))
            for i, e in enumerate(evs):
                if e.kind == "GOTO":
                    n += 1
                    rep.check(any(x.kind == "SETSTATE" for x in evs[:i]), "C04.e", "CodegenCtx._generate_action_implementation", f"{cl}: goto {e.a}",
                              f"{cl}'s template jumps (`{e.text.strip()}`) without storing the state it jumps to")
    if n < 30:
        raise AnalysisError(f"C04.e: only {n} non-consuming gotos found")

    # ------------------------------------------------------------------ C04.f freeing delete resets the counter
    rep.rule("C04.f", "every DeleteBuf path resets the length counter (an out-of-space handler that empties the buffer must make room)")
    fp = E.enumerate("CodegenCtx._generate_action_implementation", classes={"action": "DeleteBuf"})
    m = 0
    for p in fp.paths:
        if p.end and p.end[0] == "raise":
            continue
        evs = events_of(fp.lines(p))
        m += 1
        v = p.valuation()
        key = ", ".join(f"{k.replace('action.into_storage.', '').replace('F:', '')}={'T' if b else 'F'}" for k, b in sorted(v.items()) if "type ==" not in k)
        rep.check(any(e.kind == "SETCOUNTER" and e.b == "0" for e in evs), "C04.f", "CodegenCtx._generate_action_implementation", f"DeleteBuf [{key}]",
                  "delete does not reset the length counter on this path: `catch (outofspace) { s = \"\"; }` then overflows again immediately and feed() spins")
    if m < 6:
        raise AnalysisError("C04.f: DeleteBuf paths not found")


def _proxy_guards(ctx, rep, tier):
    """C04.g: the optimiser must not fold the statements after a yield (a non-eliminable proxy state) behind the yield's return -
    otherwise every re-entry re-raises the condition without consuming. Reuses C05.b's guard analysis."""
    from ..core import Report
    from . import c05
    rep.rule("C04.g", "the fall-through optimiser never merges across a non-eliminable proxy state / condition point (a yield's continuation stays a separate step)")
    sub = Report("C05")
    c05.run(ctx, sub, tier)
    n = 0
    for v in sub.violations:
        if v.rule == "C05.b" and "proxy" in v.construct:
            rep.bad("C04.g", v.function, v.construct, v.message, v.extra, v.line)
            n += 1
    if not n:
        rep.ok("C04.g", "DfaCompileCtx._optimize_shortcircuit_fallthroughs", "both rewriting loops guard source and target proxies")


_run0 = run


def run(ctx, rep, tier):
    _run0(ctx, rep, tier)
    _proxy_guards(ctx, rep, tier)


_run_k = run


def run(ctx, rep, tier):
    _run_k(ctx, rep, tier)
    from .c05 import check_getitem_contract
    check_getitem_contract(ctx, rep, "C04.h")      # the cycle check follows fall-through edges through set lookups


_run_i4 = run


def run(ctx, rep, tier):
    _run_i4(ctx, rep, tier)
    from .shared import delegate
    delegate(ctx, rep, tier, "C18", ("C18.z",), "C04.i", "the cycle check sees every state an action may leave for: what an action kind performs inside it (the after-break actions of a "
             "break, the branches of a conditional) is reported by embeds() and its override targets include theirs - a dropped target is a zero-width edge the check never walks")
