"""C05 - optimisation levels and flags never change parser behaviour (DESIGN.md section 3, C05)."""
import ast, re
from ..core import AnalysisError
from ..srcmodel import walk_no_nested, calls_in, strip_doc, is_flag_test
from ..builders import chains_in, parse_chain
from ..cevents import events_of
from ..emit import SStr

EXPLANATION = (
    "Equivalence of the optimised and unoptimised machines for all programs is NOT decided. Decided necessary conditions: "
    "C05.a both merge sites of the fall-through short-circuit append the second transition's actions after the first's "
    "(never prepend/replace), carry over the error mark, and retarget; C05.b neither loop rewires across a condition point "
    "or a non-eliminable proxy state (source or target) - the guard is the disjunction of both clauses, first in the loop; "
    "the effective symbol set of an Else fall-through is widened by the *target's* foreign-else meaning of the *source* "
    "state, whose definition is (own alphabet - other's alphabet) + Else over the default alphabet that excludes only Else; "
    "C05.c `s = \"\"` and `delete s` have the same effect on (length counter, terminator) in every storage mode (template "
    "relation), and the rewrite is applied only to the empty literal under its flag; C05.d removal reachability covers C "
    "reachability: every action template that stores a state index declares that state among its override targets with a "
    "mode dfs() follows, the conditional action aggregates modes in an order that keeps targets alive, dfs handles every "
    "mode; C05.e each optimisation flag is read only by its own pass; C05.g neither rewriting loop of the short-circuit pass retargets a transition past an accepting state (resting there is observable: DONE). C05.f range collapsing restarts its run at the "
    "first non-consecutive value.")
NOT_DECIDED = ("soundness of the short-circuit rewrite as a whole (foreign-else translation, thresholds), of the handles_else rewriting, and of range-collapse "
               "arithmetic beyond the run-restart condition; bisimilarity of the machines")
ENGINES = ["E1 source model", "builder-chain recogniser", "E5 emission paths", "E6 events"]

SC = "DfaCompileCtx._optimize_shortcircuit_fallthroughs"
ACT = "CodegenCtx._generate_action_implementation"


def proxy_clause(node, var):
    """node == `isinstance(<var>, DFProxyState) and not <var>.can_eliminate()` ?"""
    return isinstance(node, ast.BoolOp) and isinstance(node.op, ast.And) and len(node.values) == 2 and \
        ast.unparse(node.values[0]) == f"isinstance({var}, DFProxyState)" and ast.unparse(node.values[1]) == f"not {var}.can_eliminate()"


def run(ctx, rep, tier):
    model, E = ctx.model, ctx.emit
    fn = model.func(SC)
    loops = [n for n in walk_no_nested(fn) if isinstance(n, ast.For) and ast.unparse(n.iter) == "all_transitions"]
    if len(loops) != 2:
        raise AnalysisError(f"{SC}: expected two rewriting loops over all_transitions, found {len(loops)}")
    loops.sort(key=lambda n: n.lineno)

    rep.rule("C05.a", "short-circuit merges append the absorbed transition's actions after the absorbing one's, carry the error mark, retarget")
    rep.rule("C05.m", "neither rewriting loop extends a transition that carries an early-returning action (nothing is performed behind a yield on its transition)")
    rep.rule("C05.l", "neither rewriting loop merges an action that returns early (input advanced before the actions) with one that may leave without consuming")
    rep.rule("C05.h", "the fall-through short-circuit never turns a transition whose own actions may leave early into a consuming one")
    rep.rule("C05.g", "neither rewriting loop bypasses an accepting state (resting in it is observable: DONE from feed/end)")
    rep.rule("C05.b", "no rewiring across condition points / non-eliminable proxies (source or target); Else widened by target.compute_foreign_else_definition(source)")
    for li, lp in enumerate(loops):
        name = ("fallthrough short-circuit", "dummy-state removal")[li]
        tvars = [ast.unparse(e) for e in lp.target.elts] if isinstance(lp.target, ast.Tuple) else []
        if len(tvars) != 2:
            raise AnalysisError("rewriting loop target is not (orig_state, transition)")
        sv, tv = tvars
        # --- guard: among the first statements (before any rewiring), `if <A> or <B>: continue`
        guard = None
        for st in lp.body:
            if isinstance(st, ast.If) and "can_eliminate" in ast.unparse(st.test):
                guard = st
                break
            if any(isinstance(n, ast.Call) and isinstance(n.func, ast.Attribute) and n.func.attr in ("attach", "to", "fallthrough", "handles_else") for n in ast.walk(st)):
                break
        ok = False
        why = "guard missing before the rewiring statements"
        if guard is not None:
            t = guard.test
            ok = isinstance(t, ast.BoolOp) and isinstance(t.op, ast.Or) and len(t.values) == 2 and \
                {True} == {any(proxy_clause(v, x) for v in t.values) for x in (f"{tv}.target", sv)} and isinstance(guard.body[-1], ast.Continue) and len(guard.body) == 1
            why = f"guard is `{ast.unparse(t)}`"
        # --- C05.g: a skip guard for accepting targets among the statements before the first rewiring statement
        acc = False
        for st in lp.body:
            if any(isinstance(n, ast.Call) and isinstance(n.func, ast.Attribute) and n.func.attr in ("attach", "to", "fallthrough", "handles_else") for n in ast.walk(st)):
                break
            if isinstance(st, ast.If) and not st.orelse and len(st.body) == 1 and isinstance(st.body[0], ast.Continue):
                disj = st.test.values if isinstance(st.test, ast.BoolOp) and isinstance(st.test.op, ast.Or) else [st.test]
                if any(ast.unparse(d) in (f"{tv}.target in self.dfa.accepting_states", f"self.dfa.is_accepting({tv}.target)") for d in disj):
                    acc = True
        # --- C05.l: an early-returning action and one that may leave without consuming never end up on one transition
        absorbed_name = "next_target" if li == 0 else "to_replace"
        okl = False
        for st in lp.body:
            if any(isinstance(n, ast.Call) and isinstance(n.func, ast.Attribute) and n.func.attr in ("attach", "to", "fallthrough", "handles_else") for n in ast.walk(st)):
                break
            if isinstance(st, ast.If) and len(st.body) == 1 and isinstance(st.body[0], ast.Continue) and not st.orelse:
                t = ast.unparse(st.test)
                if re.fullmatch(r"any\(\(?(\w+)\.may_return_early\(\) for \1 in combined_actions\)?\) and any\(\(?(\w+)\.get_target_override_mode\(\) == ActionOverrideMode\.MAY_GOTO_TARGET for \2 in combined_actions\)?\)", t):
                    okl = model.has(SC, f"combined_actions = [*{tv}.actions, *{absorbed_name}.actions]", root=[x for x in lp.body])
        rep.check(okl, "C05.l", SC, f"{name}: no merge that puts an early-returning action and a may-redirect action on one transition",
                  "a yield is merged onto a transition with an action that may leave without consuming (append overflow, break under an if): the generated code advances the input before the "
                  "actions, the redirect re-dispatches the same byte and the next one is skipped - with one byte left the pointer passes the end of the caller's buffer")
        # --- C05.m (F-90): a transition that carries an early-returning action (a yield) is never extended - the generated code returns at the yield, so whatever
        # is appended behind it on the same transition is never performed, and a yield merged onto the consuming transition behind it is reported a byte late
        okm = False
        for st in lp.body:
            if any(isinstance(n, ast.Call) and isinstance(n.func, ast.Attribute) and n.func.attr in ("attach", "to", "fallthrough", "handles_else") for n in ast.walk(st)):
                break
            if isinstance(st, ast.If) and len(st.body) == 1 and isinstance(st.body[0], ast.Continue) and not st.orelse and \
                    re.fullmatch(r"any\(\(?(\w+)\.may_return_early\(\) for \1 in %s\.actions\)?\)" % re.escape(tv), ast.unparse(st.test)):
                okm = True
        rep.check(okm, "C05.m", SC, f"{name}: a transition that carries an early-returning action is not extended",
                  "the pass appends actions behind a yield (the generated code returns at the yield: they never run; two merged yields lose the second) or merges a yield that happens BEFORE "
                  "a byte onto the transition that consumes it (reported one byte late): `\"a\"; yield Y; x = 1; wait \"b\";` differs between -O2 and -O3")
        if li == 0:
            # --- C05.h: the absorbing fall-through transition carries no action that may leave early
            lv = False
            for st in lp.body:
                if any(isinstance(n, ast.Call) and isinstance(n.func, ast.Attribute) and n.func.attr in ("attach", "to", "fallthrough", "handles_else") for n in ast.walk(st)):
                    break
                if isinstance(st, ast.If) and not st.orelse and len(st.body) == 1 and isinstance(st.body[0], ast.Continue):
                    if re.fullmatch(r"any\(\(?(\w+)\.get_target_override_mode\(\) != ActionOverrideMode\.NONE for \1 in %s\.actions\)?\)" % re.escape(tv), ast.unparse(st.test)):
                        lv = True
            rep.check(lv, "C05.h", SC, f"{name}: a fall-through transition whose own actions may leave early is not merged into a consuming one",
                      "a fall-through transition carrying an action that may leave early (conditional break, overflowing append) is merged into a consuming transition: when the action leaves, "
                      "the generated code consumes the byte on the way out, which the unoptimised machine re-examines")
        rep.check(acc, "C05.g", SC, f"{name}: a transition into an accepting state is never rewired past it",
                  "the pass retargets a fall-through transition past an accepting state: the machine no longer rests in that state, so feed()/end() report a different "
                  "result at that point (e.g. `optional { \"a\"; } finish; ...` under -O3)")
        rep.check(ok, "C05.b", SC, f"{name}: skip when source or target is a non-eliminable proxy / condition point",
                  f"{why}: the pass may now merge a transition across a condition point or a proxy state that carries actions (e.g. fold the statements after a yield behind its return)")
        # --- merge statements
        stmts = [st for st in lp.body if isinstance(st, ast.Expr) and isinstance(st.value, ast.Call)]
        chains = [parse_chain(st.value) for st in stmts]
        chains = [c for c in chains if c is not None and c.root == tv]
        att = [c for c in chains if c.attach]
        tos = [c for c in chains if c.to is not None]
        absorbed = "next_target" if li == 0 else "to_replace"
        ok = len(att) == 1 and att[0].attach == [([f"*{absorbed}.actions"], "False")]
        rep.check(ok, "C05.a", SC, f"{name}: attach(*{absorbed}.actions) - appended, in order",
                  f"merge attaches {[c.attach for c in att]}: actions of the absorbed transition must run after the absorbing transition's own, exactly once")
        ok = len(tos) == 1 and tos[0].to == f"{absorbed}.target"
        rep.check(ok, "C05.a", SC, f"{name}: retarget to {absorbed}.target", f"retarget is {[c.to for c in tos]}")
        if len(att) == 1 and len(tos) == 1:
            rep.check(stmts.index(att[0].node and next(s for s in stmts if s.value is att[0].node)) < stmts.index(next(s for s in stmts if s.value is tos[0].node)), "C05.a", SC,
                      f"{name}: actions merged before retargeting", "order of attach / retarget changed")
        em = [n for n in lp.body if isinstance(n, ast.If) and ast.unparse(n.test) == f"{absorbed}.error_handling"]
        if li == 0:
            # the absorbed transition is the one that CONSUMES the byte: its reason for consuming (valid continuation or error path) becomes the merged transition's
            ok = len(em) == 1 and len(em[0].body) == 1 and ast.unparse(em[0].body[0]) == f"{tv}.handles_else()"
            rep.check(ok, "C05.a", SC, f"{name}: error mark of the consuming (absorbed) transition carried over", "the error-path mark of the absorbed consuming transition is no longer carried over")
        else:
            # F-91: here the absorbing transition consumes and keeps its own reason; the absorbed step is a non-consuming Else whose mark (a yield that ends a block carries
            # one without being an error) says nothing about the byte consumed before it. (This rule used to demand the hand-over: a frozen belief, wrong.)
            marks = [n for n in ast.walk(lp) if isinstance(n, ast.Call) and isinstance(n.func, ast.Attribute) and n.func.attr == "handles_else" and ast.unparse(n.func.value) == tv]
            rep.check(not em and not marks, "C05.a", SC, f"{name}: the consuming transition keeps its own error mark",
                      "the dummy-state removal hands the error mark of the absorbed non-consuming step to the consuming transition in front of it: a valid continuation becomes an 'error path', the "
                      "state in front of it counts as finished - `\"i\"; optional { \"e\"; yield Y; }` answers DONE right after `i` at -O3 and the yield is lost")
        if li == 0:
            ft = [c for c in chains if c.fallthrough is not None]
            rep.check(len(ft) == 1 and ft[0].fallthrough == "False", "C05.a", SC, f"{name}: merged transition consumes like the absorbed one", f"fallthrough update is {[c.fallthrough for c in ft]}")
            skip = [st for st in lp.body if isinstance(st, ast.If) and ast.unparse(st.test) == f"not {tv}.is_fallthrough" and isinstance(st.body[-1], ast.Continue)]
            rep.check(len(skip) == 1 and lp.body.index(skip[0]) == 0, "C05.a", SC, f"{name}: only fallthrough transitions are short-circuited", "first-loop filter changed")
            nt = [st for st in lp.body if isinstance(st, ast.If) and ast.unparse(st.test) == "next_target is None or next_target.is_fallthrough" and isinstance(st.body[-1], ast.Continue)]
            rep.check(len(nt) == 1, "C05.a", SC, f"{name}: only a consuming next transition is absorbed", "next-target filter changed")
            # effective set
            eff = [n for n in lp.body if isinstance(n, ast.If) and any("effective.update(" in ast.unparse(b) for b in n.body)]
            ok = len(eff) == 1 and ast.unparse(eff[0].test) == f"DFTransition.Else in {tv}.on_values" and \
                ast.unparse(eff[0].body[0]) == f"effective.update({tv}.target.compute_foreign_else_definition({sv}))"
            rep.check(ok, "C05.b", SC, f"{name}: Else widened by target.compute_foreign_else_definition(source)",
                      f"Else widening is `{ast.unparse(eff[0]) if eff else None}`: the absorbed transition is looked up for the wrong symbol set - a fall-through Else "
                      "can be wired onto a consuming transition that does not cover the bytes it stands for")
            lk = [n for n in lp.body if isinstance(n, ast.Assign) and ast.unparse(n.targets[0]) == "next_target"]
            rep.check(len(lk) == 1 and ast.unparse(lk[0].value) == f"{tv}.target[effective]", "C05.b", SC, f"{name}: absorbed transition = target[effective symbols]", "next-target lookup changed")
            es = [n for n in lp.body if isinstance(n, ast.Assign) and ast.unparse(n.targets[0]) == "effective"]
            rep.check(len(es) == 1 and ast.unparse(es[0].value) == f"set({tv}.on_values)", "C05.b", SC, f"{name}: effective symbols start from the transition's own", "effective set init changed")
        else:
            one = [st for st in lp.body if isinstance(st, ast.If) and "len(transition.target.transitions) != 1" in ast.unparse(st.test) and "DFTransition.Else not in" in ast.unparse(st.test)]
            rep.check(len(one) == 1 and isinstance(one[0].body[-1], ast.Continue), "C05.a", SC, f"{name}: only a state with a single Else transition is a dummy", "dummy-state filter changed")
            ff = [st for st in lp.body if isinstance(st, ast.If) and ast.unparse(st.test) == "not to_replace.is_fallthrough" and isinstance(st.body[-1], ast.Continue)]
            rep.check(len(ff) == 1, "C05.a", SC, f"{name}: the dummy's transition must be a fallthrough", "dummy fallthrough filter changed")
    # foreign else definition + default alphabet
    cfe = ast.unparse(model.func("DFState.compute_foreign_else_definition"))
    ok = model.has("DFState.compute_foreign_else_definition", "our_alphabet = self.local_alphabet()") and model.has("DFState.compute_foreign_else_definition", "their_alphabet = other_state.local_alphabet()") and model.has("DFState.compute_foreign_else_definition", "local_else_additions = our_alphabet - their_alphabet") \
        and model.has("DFState.compute_foreign_else_definition", "local_else_additions.add(DFTransition.Else)")
    rep.check(ok, "C05.b", "DFState.compute_foreign_else_definition", "(own alphabet - other's alphabet) + Else", "foreign-else definition changed")
    la = model.func("DFState.local_alphabet")
    dflt = la.args.defaults
    rep.check(len(dflt) == 1 and ast.unparse(dflt[0]) == "(DFTransition.Else,)", "C05.b", "DFState.local_alphabet", "default alphabet excludes only Else (End is a symbol)",
              f"default `excluding` is {ast.unparse(dflt[0]) if dflt else None}: End disappears from alphabets, so Else translations drop the end-of-input symbol")

    # ------------------------------------------------------------------ C05.c  s = "" vs delete s
    rep.rule("C05.c", "`s = \"\"` (SetToStr with the empty literal) and `delete s` (DeleteBuf) have the same effect on length counter and terminator")
    pas = ast.unparse(model.func("ParseCtx._parse_assign_stmt"))
    rep.check(model.has("ParseCtx._parse_assign_stmt", "if len(result) == 0 and ProgramData.do(ProgramFlag.USE_DELETE_FOR_EMPTY_STRING):") and model.has("ParseCtx._parse_assign_stmt", "return ActionNode(DeleteBuf(targeted))"), "C05.c",
              "ParseCtx._parse_assign_stmt", "rewrite applies to the empty literal only, under its flag", "the empty-string rewrite condition changed")
    fp = E.enumerate(ACT, classes={"action": "DeleteBuf"})
    n = 0
    OUT = "action.into_storage"
    for p in fp.paths:
        if p.end and p.end[0] == "raise":
            continue
        v = p.valuation()
        if v.get(f"{OUT}.type == OutputStorageType.STR") is not True:
            continue
        evs = [e for e in events_of(fp.lines(p)) if e.kind != "COMMENT"]
        freed = any(e.kind == "FREE" for e in evs)
        sn = v.get(f"{OUT}.str_null")
        cnt = [e for e in evs if e.kind == "SETCOUNTER"]
        term = [e for e in evs if e.kind in ("WRITE", "WRITE_IF_NONNULL") and e.b == "0" and e.c == "0"]
        key = ", ".join(f"{k.replace(OUT + '.', '').replace('F:', '')}={'T' if b else 'F'}" for k, b in sorted(v.items()) if "type ==" not in k)
        n += 1
        # SetToStr("") sets counter 0 and writes the terminator iff terminated; DeleteBuf must do the same (freed buffer: nothing to terminate)
        ok_c = len(cnt) == 1 and cnt[0].b == "0"
        rep.check(ok_c, "C05.c", ACT, f"DeleteBuf resets the length counter [{key}]", "delete leaves the length counter untouched on this path while `s = \"\"` sets it to 0", extra={"lines": [i.text() for i in fp.lines(p)]})
        if not freed:
            want = bool(sn)
            if sn is None:
                rep.bad("C05.c", ACT, f"DeleteBuf terminator [{key}]", "terminator write does not depend on whether the string is terminated")
            else:
                rep.check((len(term) == 1) == want, "C05.c", ACT, f"DeleteBuf writes the terminator iff terminated [{key}]",
                          f"`delete` {'omits' if want else 'writes'} the NUL at index 0 here while `s = \"\"` {'writes' if want else 'omits'} it: the two differ, "
                          "and the optimiser rewrites one into the other")
    if n < 6:
        raise AnalysisError("C05.c: DeleteBuf template paths not found")
    fp = E.enumerate(ACT, classes={"action": "SetToStr"})
    m = 0
    for p in fp.paths:
        if p.end and p.end[0] == "raise":
            continue
        evs = [e for e in events_of(fp.lines(p)) if e.kind != "COMMENT"]
        cnt = [e for e in evs if e.kind == "SETCOUNTER"]
        mc = [e for e in evs if e.kind == "MEMCPY"]
        m += 1
        rep.check(len(cnt) == 1 and cnt[0].b == "[[len(action.value_expr)]]" and len(mc) == 1, "C05.c", ACT, "SetToStr: memcpy of the literal (+NUL iff terminated), counter = its length",
                  "SetToStr template changed shape")
    if m < 4:
        raise AnalysisError("C05.c: SetToStr paths not found")

    # ------------------------------------------------------------------ C05.d removal reachability covers C reachability
    rep.rule("C05.d", "an action template that stores a state index declares that state as override target with a mode dfs() follows; mode aggregation keeps targets alive; dfs handles every mode")
    classes = [c for c in model.concrete_subclasses("Action") if c != "Action"]
    n_store = 0
    for cl in classes:
        fp = E.enumerate(ACT, classes={"action": cl})
        stored = set()
        for p in fp.paths:
            for e in events_of(fp.lines(p)):
                if e.kind == "SETSTATE":
                    stored.add(e.a)
        if not stored:
            continue
        n_store += 1
        o, tfn = model.resolve_method(cl, "get_target_override_targets")
        o2, mfn = model.resolve_method(cl, "get_target_override_mode")
        tsrc = ast.unparse(tfn.body[-1]) if tfn else ""
        msrc = ast.unparse(mfn.body[-1]) if mfn else ""
        for s_expr in sorted(stored):
            attr = s_expr.replace("action.", "self.")
            rep.check(attr in tsrc and o == cl, "C05.d", f"{cl}.get_target_override_targets", f"declares {s_expr}",
                      f"the {cl} template stores the index of {s_expr} into state->state but get_target_override_targets() is `{tsrc}`: unreachable-state removal can delete a state the C still jumps to")
        rep.check(re.search(r"ActionOverrideMode\.(MAY_GOTO_TARGET|ALWAYS_GOTO_OTHER)$", msrc) is not None and o2 == cl, "C05.d", f"{cl}.get_target_override_mode",
                  "mode is one dfs() follows", f"{cl} stores a state index but declares mode `{msrc}`")
    if n_store < 3:
        raise AnalysisError("C05.d: state-storing action templates not found")
    vals = {n: ast.literal_eval(v) for n, v in model.enum_members("ActionOverrideMode")}
    rep.check(vals["MAY_GOTO_TARGET"] > vals["MAY_GOTO_UNDEFINED"] > vals["NONE"], "C05.d", "ActionOverrideMode", "MAY_GOTO_TARGET > MAY_GOTO_UNDEFINED > NONE",
              f"enum values {vals}: ConditionalAction keeps the sub-action mode with the largest value, so a mix of finish and break/append must yield MAY_GOTO_TARGET or the "
              "targets of the conditional action are not followed and reachable states get removed")
    cm = ast.unparse(model.func("ConditionalAction.get_target_override_mode"))
    ok = model.has("ConditionalAction.get_target_override_mode", "submode = ActionOverrideMode.MAY_GOTO_UNDEFINED") and model.has("ConditionalAction.get_target_override_mode", "submode = ActionOverrideMode.MAY_GOTO_TARGET") and model.has("ConditionalAction.get_target_override_mode", "if submode.value > mode.value")
    rep.check(ok, "C05.d", "ConditionalAction.get_target_override_mode", "ALWAYS_* weakened to MAY_*, strongest mode kept", "conditional-action mode aggregation changed")
    # every aggregate over the sub-actions of a conditional action ranges over all branches (the else branch has no IntegerCondition of its own)
    for mname, mf in model.classes["ConditionalAction"].methods.items():
        for n in walk_no_nested(mf):
            its = []
            if isinstance(n, ast.For):
                its = [n.iter]
            elif isinstance(n, (ast.GeneratorExp, ast.ListComp, ast.SetComp, ast.DictComp)):
                its = [g.iter for g in n.generators]
            for it in its:
                t = ast.unparse(it)
                if "sub_actions" not in t and "self.embeds()" not in t:
                    continue
                full = t in ("itertools.chain(*self.sub_actions.values())", "self.embeds()", "self.sub_actions.values()", "self.sub_actions.items()")
                per_cond = t == "self.sub_actions[cond]" and mname == "is_timing_strict"     # condition-specific test, followed by an aggregate over all branches
                rep.check(full or per_cond, "C05.d", f"ConditionalAction.{mname}", f"ranges over every branch's actions ({t})",
                          f"`{t}` does not range over all branches of the conditional action: what the skipped branch (e.g. `else {{ break; }}`) does is not reported - the code generator "
                          "jumps to the stale target after the break has set the state, reachability prunes states that are still needed")
    cmf = model.func("ConditionalAction.get_target_override_mode")
    rets = [n for n in walk_no_nested(cmf) if isinstance(n, ast.Return)]
    init = [n for n in strip_doc(cmf.body) if isinstance(n, ast.Assign) and ast.unparse(n.value) == "ActionOverrideMode.NONE"]
    ok = len(rets) == 1 and len(init) == 1 and isinstance(rets[0].value, ast.Name) and rets[0].value.id == ast.unparse(init[0].targets[0]) and rets[0] is strip_doc(cmf.body)[-1]
    rep.check(ok, "C05.d", "ConditionalAction.get_target_override_mode", "only returns the aggregated (weakened) mode - never an ALWAYS_* mode",
              "a conditional action's sub-actions run under run-time conditions (a branch may be skipped, an if may have no else): reporting an ALWAYS_* mode makes dfs() prune the "
              "transition's real target and code generation omit the state store - `if n > 100 { finish X; }` followed by more statements breaks when the condition is false")
    ct = ast.unparse(model.func("ConditionalAction.get_target_override_targets"))
    rep.check(model.has("ConditionalAction.get_target_override_targets", "tgts.update(act.get_target_override_targets())") and model.has("ConditionalAction.get_target_override_targets", "itertools.chain(*self.sub_actions.values())"), "C05.d", "ConditionalAction.get_target_override_targets",
              "union of all sub-actions' targets", "conditional-action targets changed")
    dfs = model.func("DFA.dfs")
    dsrc = ast.unparse(dfs)
    handled = set(re.findall(r"get_target_override_mode\(\) == ActionOverrideMode\.(\w+)", dsrc))
    rep.check(handled == {"ALWAYS_GOTO_OTHER", "ALWAYS_GOTO_UNDEFINED", "MAY_GOTO_TARGET"}, "C05.d", "DFA.dfs", "handles every mode that changes reachability", f"dfs handles {sorted(handled)}")
    follow = len(re.findall(r"for tgt in action\.get_target_override_targets\(\):\s+yield from aux\(tgt\)", dsrc))
    rep.check(follow == 2 and "if use_real:" in dsrc and "yield from aux(t.target)" in dsrc, "C05.d", "DFA.dfs", "override targets followed; the real target skipped only when an action always leaves",
              "dfs no longer follows override targets / real targets as before")
    ri = ast.unparse(model.func("DfaCompileCtx._optimize_remove_inaccessible"))
    rep.check((model.has("DfaCompileCtx._optimize_remove_inaccessible", "start_action_targets = [target for action in self.start_actions for subaction in action.all_subactions() for target in subaction.get_target_override_targets()]\naccessible = set(self.dfa.dfs(also_from=start_action_targets))") and model.has("DFA.dfs", "yield from aux(self.starting_state)\nfor extra_root in also_from:\n    yield from aux(extra_root)")) and model.has("DfaCompileCtx._optimize_remove_inaccessible", "if i not in accessible"), "C05.d", "DfaCompileCtx._optimize_remove_inaccessible", "removes exactly the states dfs() does not reach", "removal criterion changed")

    # ------------------------------------------------------------------ C05.e who reads optimisation flags
    rep.rule("C05.e", "each optimisation flag is read only by its own pass / template")
    want = {"SIMPLIFY_ELSE_CONDITIONS": {"DfaCompileCtx._optimize_simplify_transition_matches"}, "REMOVE_INACCESIBLE_STATES": {"DfaCompileCtx._optimize_remove_inaccessible"},
            "USE_DELETE_FOR_EMPTY_STRING": {"ParseCtx._parse_assign_stmt"}, "SHORTCIRCUIT_FALLTHROUGHS": {SC}, "COLLAPSE_TRANSITION_RANGES": {"CodegenCtx._generate_condition_for_transition"}}
    readers = {}
    for q, f in model.functions.items():
        for n in walk_no_nested(f):
            fl = is_flag_test(n)
            if fl in want:
                readers.setdefault(fl, set()).add(q)
    for fl, w in want.items():
        rep.check(readers.get(fl, set()) == w, "C05.e", "ProgramFlag." + fl, f"read only by {sorted(w)[0].split('.')[1]}", f"{fl} is read by {sorted(readers.get(fl, set()))}")
    lv = ctx.flags.levels
    rep.check(set(sum(lv.values(), [])) == set(want), "C05.e", "ProgramData._OPTIMIZE_LEVELS", "level table lists exactly the optimisation flags", f"level table {lv}")
    # each pass returns early when its flag is off
    for fl, w in want.items():
        q = next(iter(w))
        if q.startswith("DfaCompileCtx"):
            src = ast.unparse(model.func(q))
            rep.check(re.search(r"if not ProgramData\.do\(ProgramFlag\.%s\):\s+return 0" % fl, src) is not None, "C05.e", q, "pass is a no-op when its flag is off", "flag gating of the pass changed")
    se = ast.unparse(model.func("DfaCompileCtx._optimize_simplify_transition_matches"))
    rep.check(model.has("DfaCompileCtx._optimize_simplify_transition_matches", "if len(transition.on_values) > 1 and DFTransition.Else in transition.on_values:") and model.has("DfaCompileCtx._optimize_simplify_transition_matches", "transition.on_values = [DFTransition.Else]"), "C05.e",
              "DfaCompileCtx._optimize_simplify_transition_matches", "only drops symbols already covered by Else on the same transition", "else simplification changed")

    # ------------------------------------------------------------------ C05.f range collapse run restart
    rep.rule("C05.f", "range collapsing: at the first non-consecutive value the current run is closed and a new run starts at that value, unconditionally")
    from .c06 import check_range_runs
    check_range_runs(ctx, rep, "C05.f")


def check_getitem_contract(ctx, rep, rule):
    """DFState.__getitem__(set) answers 'the one transition every symbol of the set follows': a transition only when the set is contained in
    its symbols, None as soon as the set meets a transition without being contained, the Else transition only when no explicit transition
    meets the set. The optimiser and append_after both rewire on a non-None answer."""
    model = ctx.model
    rep.rule(rule, "DFState.__getitem__(set): a transition iff the set is contained in its symbols; None when a transition covers only part of the set; Else only if none intersects")
    fq = "DFState.__getitem__"
    fn = model.func(fq)
    arm = next((n for n in fn.body if isinstance(n, ast.If) and "(list, tuple, set, frozenset)" in ast.unparse(n.test)), None)
    if arm is None:
        raise AnalysisError(f"{rule}: set branch of DFState.__getitem__ not found")
    loop = next((n for n in arm.body if isinstance(n, ast.For)), None)
    ok = loop is not None and ast.unparse(loop.iter) == "self.all_transitions()"
    v = ast.unparse(loop.target) if loop is not None else "?"
    contained = partial = False
    if loop is not None:
        for st in loop.body:
            if isinstance(st, ast.If):
                t = ast.unparse(st.test)
                if t == f"data <= set({v}.on_values)" and ast.unparse(st.body[-1]) == f"return {v}":
                    contained = True
                    for e in st.orelse:
                        if isinstance(e, ast.If) and ast.unparse(e.test) in (f"data & set({v}.on_values)", f"not data.isdisjoint({v}.on_values)", f"not data.isdisjoint(set({v}.on_values))") and ast.unparse(e.body[-1]) == "return None":
                            partial = True
                elif contained and t in (f"data & set({v}.on_values)", f"not data.isdisjoint({v}.on_values)") and ast.unparse(st.body[-1]) == "return None":
                    partial = True
    last = arm.body[-1]
    rep.check(ok and contained, rule, fq, "a transition is returned only when it covers the whole set", "containment test of the set lookup changed")
    rep.check(partial, rule, fq, "a transition that covers only part of the set makes the answer None", "a transition sharing some but not all symbols with the queried set is skipped and the lookup falls back to "
              "Else: callers (short-circuit pass, append_after) then treat explicitly handled symbols as if they took the Else transition")
    shape_ok = len(arm.body) == 3 and isinstance(arm.body[0], ast.Assign) and ast.unparse(arm.body[0]) == "data = frozenset(data)" and arm.body[1] is loop
    rep.check(isinstance(last, ast.Return) and ast.unparse(last) == "return self[DFTransition.Else]" and last is not loop and shape_ok, rule, fq,
              "Else is the answer exactly when every explicit transition was found disjoint (for every symbol kind, End included)",
              "the Else fallback of the set lookup is no longer unconditional after the scan: some symbol sets (e.g. those containing End) get no answer, so walks that follow fall-through edges "
              "(the compile-time cycle check, the short-circuit pass) lose the trail there")


_run_h = run


def run(ctx, rep, tier):
    _run_h(ctx, rep, tier)
    check_getitem_contract(ctx, rep, "C05.i")
    from . import structs
    structs.check_copy_complete(ctx, rep, "C05.j")      # the pass mutates action lists in place: copies must not share them with the originals


# ---------------------------------------------------------------------------------------------------------------- C05.n
SHRINKING = ("discard", "remove", "difference_update", "intersection_update", "symmetric_difference_update", "pop", "clear")


def _merge_lookup_covers_the_fallthrough(ctx, rep, tier):
    """C05.n: the short-circuit pass replaces a non-consuming step by the consuming transition behind it only when *every* symbol the step carries takes that
    one transition. The set it asks the target about therefore has to contain every symbol of the step (its Else spelled out for the target: the foreign-else
    definition); it may only grow between being built from the step's symbols and the lookup. A symbol taken out (End, say, "because the merged transition takes
    a byte") is rerouted by the merge although the target handles it differently: at -O3 end() follows the merged transition where -O0 took the target's own."""
    model = ctx.model
    q = "DfaCompileCtx._optimize_shortcircuit_fallthroughs"
    fn = model.func(q)
    rep.rule("C05.n", "short-circuit merge: the symbol set looked up in the target starts as the step's own symbols and only grows (foreign-else definition) before "
                      "the lookup - no symbol the step carries is left out of the question `do all of these take one consuming transition?`")
    n = 0
    for loop in [x for x in ast.walk(fn) if isinstance(x, ast.For)]:
        subs = [x for x in ast.walk(loop) if isinstance(x, ast.Subscript) and ast.unparse(x.value).endswith(".target") and isinstance(x.slice, ast.Name) and isinstance(x.ctx, ast.Load)]
        for sub in subs:
            name = sub.slice.id
            tr = ast.unparse(sub.value)[:-len(".target")]
            n += 1
            inits, probs = [], []
            for st in ast.walk(loop):
                if getattr(st, "lineno", 0) > sub.lineno:
                    continue
                if isinstance(st, ast.Assign) and any(isinstance(t, ast.Name) and t.id == name for t in st.targets):
                    inits.append(ast.unparse(st.value))
                elif isinstance(st, ast.AugAssign) and isinstance(st.target, ast.Name) and st.target.id == name and not isinstance(st.op, ast.BitOr):
                    probs.append(f"`{ast.unparse(st)}` shrinks the set")
                elif isinstance(st, ast.Call) and isinstance(st.func, ast.Attribute) and isinstance(st.func.value, ast.Name) and st.func.value.id == name and st.func.attr in SHRINKING:
                    probs.append(f"`{ast.unparse(st)}` takes symbols out of the set")
            full = {f"set({tr}.on_values)", f"set({tr}.on_values).copy()", f"{{*{tr}.on_values}}", f"set(list({tr}.on_values))"}
            if not inits or any(i not in full for i in inits):
                probs.append(f"the set is built as {inits or 'nothing recognisable'}, not from all of {tr}.on_values")
            rep.check(not probs, "C05.n", q, f"lookup {ast.unparse(sub)}", "; ".join(probs) + ": symbols of the fall-through step that the target treats differently are merged away "
                      "(observable at -O3 only, e.g. end() after a handler that starts with a wildcard)")
    if n < 1:
        raise AnalysisError("C05.n: the short-circuit pass no longer looks the step's symbol set up in its target (anchor lost)")


_run_n5 = run


def run(ctx, rep, tier):
    _run_n5(ctx, rep, tier)
    _merge_lookup_covers_the_fallthrough(ctx, rep, tier)


# ---------------------------------------------------------------------------------------------------------------- C05.o
def _failed_marker_names_no_live_state(ctx, rep, tier):
    """C05.o: the number the machine rests at once it has failed must not be the number of a live state at ANY optimisation level. With the fail state in the
    machine (-O0, or a program that can fail) it is that state's index; where the state was removed as inaccessible (-O1 and above, a program that cannot fail) it
    has to lie outside range(len(states)) - `len(states) - 1` names the last live state, and an empty chunk fed while the machine rests there answers FAIL."""
    model = ctx.model
    q = "CodegenCtx._fail_state_index"
    if not model.has_func(q):
        # a tree from before the marker existed (the pinned tree): there a failed machine has no resting number at all, which is what F-80 / F-12 were about
        rep.rule("C05.o", "the 'failed' marker is the fail state's own index when that state is part of the machine and a number no state has otherwise")
        rep.bad("C05.o", "CodegenCtx", "no `_fail_state_index`", "the code generator has no single definition of the number a failed machine rests at")
        return
    fn = model.func(q)
    rep.rule("C05.o", "the 'failed' marker is the fail state's own index when that state is part of the machine and a number no state has (>= len(states)) when it was "
                      "removed: the answer to a call in the failed / a live state does not depend on whether remove-inaccessible-states ran")
    rets = [r for r in ast.walk(fn) if isinstance(r, ast.Return) and r.value is not None]
    guarded = [r for r in rets if ast.unparse(r.value) == "self.dfa.states.index(self.generic_fail_state)"]
    ok_guard = len(guarded) == 1 and isinstance(model.parents.get(guarded[0]), ast.If) and ast.unparse(model.parents[guarded[0]].test) == "self.generic_fail_state in self.dfa.states"
    rep.check(ok_guard, "C05.o", q, "fail state present: its own index", "the marker for a machine that contains the fail state is no longer that state's index (guarded by its membership)")
    others = [r for r in rets if r not in guarded]
    bad = []
    for r in others:
        m = re.fullmatch(r"len\(self\.dfa\.states\)(?: ([+-]) (\d+))?", ast.unparse(r.value))
        off = None if m is None else (0 if m.group(1) is None else int(m.group(2)) * (1 if m.group(1) == "+" else -1))
        if off is None or off < 0:
            bad.append(ast.unparse(r.value))
    rep.check(bool(others) and not bad, "C05.o", q, "fail state removed: a number outside range(len(states))",
              f"without a fail state the marker is `{', '.join(bad) or 'missing'}`: the number of a live state - at -O1 and above (fail state removed for a program that cannot fail) an "
              "empty chunk fed while the machine rests in its highest-numbered state answers FAIL; -O0 keeps the state and is unaffected")


_run_o5 = run


def run(ctx, rep, tier):
    _run_o5(ctx, rep, tier)
    _failed_marker_names_no_live_state(ctx, rep, tier)


_run_r6 = run


def run(ctx, rep, tier):
    _run_r6(ctx, rep, tier)
    from .shared import delegate_fn
    from . import c15
    delegate_fn(ctx, rep, tier, c15._run_i15, ("C15.f",), "C05.p", "collapsed ranges (-O2 and above) test the same byte values as the equality tests they replace: bounds are emitted as numbers compared with the unsigned input byte", prop="C15")
