"""The epilogue-class table of CodegenCtx._generate_transition_body (DESIGN C10.a), checked path by path.

Used by C02 (chunk resumption), C10 (result codes / pointer protocol), C04.e, C06, C17.
Each check function returns a list of (rule, construct, ok, message, detail) for one path.
"""
from ..cevents import Ev


def seq_index(evs, pred, start=0):
    for i in range(start, len(evs)):
        if pred(evs[i]):
            return i
    return -1


def check_row(tb):
    """Return (row, problems) for a TBPath: the row of the path's own valuation, and the problems of every completion."""
    row0 = tb.row()
    probs = []
    rows = set()
    for t in tb.completions():
        r, ps = _check_row(t)
        rows.add(r)
        for x in ps:
            if x not in probs:
                probs.append(x if r == row0 or row0 == "unknown" else f"[as {r}: {t.valuation_str()}] {x}")
    if row0 == "unknown":
        row0 = "/".join(sorted(rows))
    return row0, probs


def _check_row(tb):
    evs = tb.events
    kinds = [e.kind for e in evs]
    row = tb.row()
    probs = []

    def count(k, pred=None):
        return sum(1 for e in evs if e.kind == k and (pred is None or pred(e)))

    i_set = seq_index(evs, lambda e: e.kind in ("SETSTATE", "SETSTATE_RAW"))
    i_term = seq_index(evs, lambda e: e.kind == "TERMINATING")
    i_loop = seq_index(evs, lambda e: e.kind == "LOOP" and "transition.actions" in (e.a or ""))
    n_adv = count("ADV")
    n_cmp = count("CMP_END")
    n_reload = count("RELOAD")
    rets = [e for e in evs if e.kind == "RET"]
    gotos = [e for e in evs if e.kind == "GOTO"]
    instates = tb.get("INSTATES")
    leaves = tb.get("LEAVES")
    if leaves is True and tb.get("NOOVERRIDE") is True:
        return row, []       # infeasible: the flag is only set for an action whose override mode is not NONE (check_leaves_flag)

    # --- common to all rows: the state store comes first, operand is the transition's target ---
    if instates is True:
        if i_set != 0:
            probs.append("state store is not the first emitted effect although the target is a machine state")
        elif evs[0].kind != "SETSTATE" or evs[0].a != "transition.target":
            probs.append(f"state store operand is {evs[0].a!r}, expected the index of transition.target")
        if count("SETSTATE") + count("SETSTATE_RAW") != 1:
            probs.append("state stored more than once / not exactly once")
    elif instates is False:
        if i_term != 0 or i_set != -1:
            probs.append("target not in states: expected only the 'terminating state' comment, no state store")
    if i_loop == -1:
        probs.append("transition actions are not emitted")
    elif i_set > i_loop:
        probs.append("state store after the actions")
    if sum(1 for e in evs if e.kind == "LOOP" and "transition.actions" in (e.a or "")) != 1:
        probs.append("actions emitted more than once")

    modes = {e.a for e in evs if e.kind in ("ADV", "CMP_END", "RELOAD")}
    if modes:
        want = "indirect" if tb.get("INDIRECT") else "direct"
        if tb.get("INDIRECT") is None or modes != {want}:
            probs.append(f"pointer events use mode(s) {sorted(modes)} under INDIRECT_START_PTR={tb.get('INDIRECT')}")

    for g in gotos:
        if g.a in ("fall", "jpto"):
            if g.b != "[[STATEIDX(transition.target)]]":
                probs.append(f"goto {g.a}_ operand {g.b} is not the index of transition.target")
            if tb.get("NOOVERRIDE") is not True:
                probs.append(f"direct goto {g.a}_N emitted although an action may override the next state")
            if g.a == "jpto" and tb.get("ACCEPT") is True and tb.get("STRICT") is False:
                pass  # allowed only if not immediate done; jpto into an accepting state continues the machine

    if row == "fallthrough":
        if n_adv or n_cmp or n_reload:
            probs.append("fallthrough path touches the input pointer")
        if any(r.a == "OK" for r in rets) or rets:
            probs.append("fallthrough path returns")
        if instates is True:
            if not gotos or gotos[-1].a not in ("fall", "repeatswitch") or evs[-1].kind != "GOTO":
                probs.append("fallthrough to a machine state does not end in goto fall_N / repeatswitch")
        elif leaves is True:
            # the own target is gone but an action may have sent the machine to a live state: re-dispatch from wherever it is
            if not gotos or gotos[-1].a != "repeatswitch" or evs[-1].kind != "GOTO" or any(g.a in ("fall", "jpto") for g in gotos):
                probs.append("fallthrough whose own target is gone but whose actions may leave elsewhere must end in goto repeatswitch")
        elif instates is False:
            if gotos or kinds[-1] != "FALL_TERMINATE":
                probs.append("fallthrough to a pruned target must only terminate")
    elif row == "immediate_done":
        if n_adv or n_cmp or n_reload:
            probs.append("immediate-DONE path touches the input pointer (DONE must leave it on the last byte read)")
        if len(rets) != 1 or rets[0].a != "DONE" or evs[-1].kind != "RET":
            probs.append("immediate-DONE path must end in exactly one return DONE")
        if gotos:
            probs.append("immediate-DONE path jumps")
    elif row == "end_nonfall":
        if n_adv or n_cmp or n_reload:
            probs.append("end() path touches the input pointer")
        if rets or gotos:
            probs.append("end() non-fallthrough transition must fall to the state's tail (no return/goto here)")
    elif row == "consume":
        if n_adv != 1:
            probs.append(f"consuming in-call continuation advances {n_adv} times (must be exactly 1)")
        if n_cmp != 1 or n_reload != 1:
            probs.append(f"consuming path has {n_cmp} end-compare(s) and {n_reload} reload(s) (must be 1 and 1)")
        else:
            i_adv = seq_index(evs, lambda e: e.kind == "ADV")
            i_cmp = seq_index(evs, lambda e: e.kind == "CMP_END")
            i_rel = seq_index(evs, lambda e: e.kind == "RELOAD")
            early = tb.get("EARLY")
            if early is True and not (i_set < i_adv < i_loop < i_cmp):
                probs.append("early advance must sit between the state store and the actions")
            if early is False and not (i_loop < i_adv <= i_cmp):
                probs.append("late advance must follow the actions")
            if not (i_adv <= i_cmp < i_rel):
                probs.append("order must be advance, compare with end, reload")
            if i_cmp + 1 >= len(evs) or evs[i_cmp + 1].kind != "RET" or evs[i_cmp + 1].a != "OK" or evs[i_cmp + 1].b != "cond":
                probs.append("end compare must return OK")
            if not gotos or evs[-1].kind != "GOTO" or gotos[-1].a not in ("jpto", "repeatswitch") or i_rel > len(evs) - 2:
                probs.append("consuming path must end: reload, then goto jpto_N / repeatswitch")
            if instates is False and any(g.a in ("fall", "jpto") for g in gotos):
                probs.append("direct jump to a target that is not a machine state")
        if any(r.a != "OK" for r in rets) or len(rets) != 1:
            probs.append("consuming path may only return OK, once, at the end compare")
    elif row == "terminating":
        want_adv = 1 if tb.get("EARLY") else 0
        if n_adv != want_adv:
            probs.append(f"terminating path advances {n_adv} times, expected {want_adv}")
        if n_cmp or n_reload or gotos or rets:
            probs.append("terminating path (an action always leaves) must not compare/reload/jump/return itself")
    else:
        probs.append("path could not be classified (immediate_done never evaluated on a non-fallthrough path)")
    return row, probs


def check_leaves_flag(model):
    """The meaning tmpl.ROLE 'LEAVES' relies on: in _generate_transition_body the flag starts False and is set True in the action loop exactly for an
    emitted action whose override mode is MAY_GOTO_TARGET or ALWAYS_GOTO_OTHER; the loop ends (break) after an action whose mode is
    ALWAYS_GOTO_OTHER or ALWAYS_GOTO_UNDEFINED. Returns (has_flag, problems)."""
    import ast
    fn = model.func("CodegenCtx._generate_transition_body")
    assigns = [n for n in ast.walk(fn) if isinstance(n, ast.Assign) and len(n.targets) == 1 and isinstance(n.targets[0], ast.Name) and n.targets[0].id == "leaves_for_elsewhere"]
    if not assigns:
        return False, []
    probs = []
    loop = next((n for n in fn.body if isinstance(n, ast.For) and ast.unparse(n.iter) == "transition.actions"), None)
    if loop is None:
        return True, ["action loop not found at the top level of _generate_transition_body"]
    init = [a for a in assigns if a in fn.body]
    if len(init) != 1 or ast.unparse(init[0].value) != "False" or fn.body.index(init[0]) > fn.body.index(loop):
        probs.append("leaves_for_elsewhere is not initialised to False before the action loop")
    inloop = [a for a in assigns if a not in fn.body]
    ifs = [n for n in loop.body if isinstance(n, ast.If)]
    sets = [i for i in ifs if any(a in i.body for a in inloop)]
    if len(inloop) != 1 or len(sets) != 1 or ast.unparse(inloop[0].value) != "True" or \
            ast.unparse(sets[0].test) != "action.get_target_override_mode() in [ActionOverrideMode.MAY_GOTO_TARGET, ActionOverrideMode.ALWAYS_GOTO_OTHER]":
        probs.append("leaves_for_elsewhere is not set exactly for an emitted action whose mode is MAY_GOTO_TARGET / ALWAYS_GOTO_OTHER")
    return True, probs


def action_loop_stop_modes(model):
    """override modes after which the emitter stops rendering a transition's actions (set of names), from the `break` guard of its action loop"""
    import ast, re
    fn = model.func("CodegenCtx._generate_transition_body")
    loop = next((n for n in fn.body if isinstance(n, ast.For) and ast.unparse(n.iter) == "transition.actions"), None)
    if loop is None:
        return None
    out = set()
    for i in loop.body:
        if isinstance(i, ast.If) and i.body and isinstance(i.body[-1], ast.Break) and ast.unparse(i.test).startswith("action.get_target_override_mode() in"):
            emitted_before = loop.body.index(i) > next((k for k, st in enumerate(loop.body) if "_generate_action_implementation" in ast.unparse(st)), 10 ** 6)
            if emitted_before:
                out |= set(re.findall(r"ActionOverrideMode\.(\w+)", ast.unparse(i.test)))
    return out
