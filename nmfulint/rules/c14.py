"""C14 - math expressions evaluate as C arithmetic over the parser's variables (DESIGN.md section 3, C14)."""
import ast, re
from ..core import AnalysisError
from ..srcmodel import walk_no_nested, calls_in, strip_doc
from ..dispatch import dispatch_on, isinstance_chain
from ..evalx import const_int

EXPLANATION = (
    "By induction over expression trees. C14.a: the grammar's layering of operators (extracted from the embedded Lark "
    "grammar) is C's precedence order restricted to these operators, with left-associative repetition where C is "
    "left-associative; the two deliberate deviations (one comparison / one shift per level, unary only on atoms) reject "
    "expressions rather than re-associate them, so every accepted expression has the C parse. C14.b: the renderer "
    "encloses every recursive rendering it interpolates in parentheses (or brackets), so emitted C tree = nmfu tree. "
    "C14.c: operator tokens agree end to end (terminal languages = enum values; parser maps token text to enum by value, "
    "renderer emits the value; sum/shift/logical tokens; !x is x == false, -x is 0 - x). C14.d: integer conditions are "
    "wrapped as != 0; declared width/sign select exactly the C type of that width. C14.e: every context (assignment, "
    "char append, if-condition, conditional action) obtains the expression text from the one renderer.")
NOT_DECIDED = "the arithmetic C itself performs on the rendered expression (the C standard is the stated oracle); UB ranges of run-time values"
ENGINES = ["E1 source model", "E2 grammar model", "E3 dispatch", "E4 constant folding of threshold tables"]

CHAIN = ["disjunction_expr", "conjunction_expr", "bit_or_expr", "bit_xor_expr", "bit_and_expr", "comp_expr", "shift_expr", "sum_expr", "mul_expr", "math_unary", "math_atom"]
# C11 6.5 precedence (low -> high) restricted to nmfu's operators; equality and relational share nmfu's single comparison level
C_LEVELS = [({"||"}, True), ({"&&"}, True), ({"|"}, True), ({"^"}, True), ({"&"}, True), ({"==", "!=", "<", ">", "<=", ">="}, False),
            ({"<<", ">>"}, False), ({"+", "-"}, True), ({"*", "/", "%"}, True)]
REND = "CodegenCtx._generate_code_for_int_expr"


def layer_info(g, name):
    """-> (set of next-layer nonterminals, operator strings, repeatable, max operands)"""
    nts, ops = set(), set()
    repeat = False
    todo = [name]
    seen = set()
    while todo:
        n = todo.pop()
        if n in seen:
            continue
        seen.add(n)
        for r in g.rules.get(n, []):
            for s in r.expansion:
                sn = str(s.name)
                if s.is_term:
                    lang = g.terminal_language(sn)
                    if lang is None:
                        raise AnalysisError(f"operator terminal {sn} of {name} is not finite")
                    ops |= lang
                elif sn.startswith("__"):
                    if sn == n:
                        repeat = True
                    todo.append(sn)
                elif sn != name:
                    nts.add(sn)
    return nts, ops, repeat


def run(ctx, rep, tier):
    model, g = ctx.model, ctx.grammar

    # ------------------------------------------------------------------ C14.a grammar layering = C precedence
    rep.rule("C14.a", "grammar layers disjunction > conjunction > | > ^ > & > comparison > shift > sum > mul > unary > atom with C's operator sets and associativity")
    nts, ops, rpt = layer_info(g, "_math_expr")
    rep.check(nts == {CHAIN[0]} and not ops, "C14.a", "grammar:_math_expr", "entry is the lowest-precedence layer", f"_math_expr -> {nts}")
    for i, (want_ops, want_rpt) in enumerate(C_LEVELS):
        name, nxt = CHAIN[i], CHAIN[i + 1]
        nts, ops, rpt = layer_info(g, name)
        rep.check(nts == {nxt}, "C14.a", "grammar:" + name, f"operands are the next tighter layer {nxt}",
                  f"{name} takes operands {sorted(nts)}, expected {nxt}: operator precedence differs from C")
        rep.check(ops == want_ops, "C14.a", "grammar:" + name, f"operators {sorted(want_ops)}", f"{name} has operators {sorted(ops)}, C's level has {sorted(want_ops)}")
        rep.check(rpt == want_rpt, "C14.a", "grammar:" + name, "left-assoc repetition" if want_rpt else "at most one operator (rejects, never re-associates)",
                  f"{name} repetition={rpt}, expected {want_rpt}")
        exp1 = all(bool(r.options and r.options.expand1) for r in g.rules[name])
        rep.check(exp1, "C14.a", "grammar:" + name, "single operand collapses to the operand", "layer rule is not `?rule`: a lone operand would become a one-child operator node")
    # unary on atoms only
    un = g.rules["math_unary"]
    forms = {}
    for r in un:
        toks = [str(s.name) for s in r.expansion if s.is_term]
        nts = [str(s.name) for s in r.expansion if not s.is_term]
        forms[str(r.alias) if r.alias else "-"] = (tuple(sorted(sum((list(g.terminal_language(t)) for t in toks), []))), tuple(nts))
    rep.check(forms == {"-": ((), ("math_atom",)), "not_expr": (("!",), ("math_atom",)), "negate_expr": (("-",), ("math_atom",))}, "C14.a", "grammar:math_unary",
              "unary ! and - apply to atoms only", f"unary forms are {forms}")
    paren = [r for r in g.rules["math_atom"] if [str(s.name) for s in r.expansion if not s.is_term] == ["_math_expr"] and not r.alias]
    rep.check(len(paren) == 1 and [str(s.name) for s in paren[0].expansion if s.is_term] == ["LPAR", "RPAR"], "C14.a", "grammar:math_atom", "parenthesised expression restarts at the lowest layer",
              "parenthesised sub-expression form changed")
    idx = [r for r in g.rules["math_atom"] if str(r.alias) == "math_str_index"]
    rep.check(len(idx) == 1 and "_math_expr" in [str(s.name) for s in idx[0].expansion], "C14.a", "grammar:math_atom", "index expression is a full expression", "index form changed")

    # ------------------------------------------------------------------ C14.b full parenthesisation
    rep.rule("C14.b", "every recursive rendering interpolated into a larger C expression is enclosed in ( ) (or [ ])")
    fn = model.func(REND)
    rec_names = set()
    for n in walk_no_nested(fn):
        if isinstance(n, ast.Assign) and isinstance(n.value, ast.Call) and ast.unparse(n.value.func) == "self._generate_code_for_int_expr" and isinstance(n.targets[0], ast.Name):
            rec_names.add(n.targets[0].id)
    # names derived from a recursive rendering through the index helper (text = index_expr(ref, index)) are self-delimiting: name[index]
    n_sites = 0
    for js in [n for n in walk_no_nested(fn) if isinstance(n, ast.JoinedStr)]:
        vals = js.values
        for i, part in enumerate(vals):
            if not isinstance(part, ast.FormattedValue):
                continue
            v = part.value
            is_rec = (isinstance(v, ast.Call) and ast.unparse(v.func) == "self._generate_code_for_int_expr") or (isinstance(v, ast.Name) and v.id in rec_names)
            if not is_rec:
                continue
            n_sites += 1
            left = vals[i - 1].value if i > 0 and isinstance(vals[i - 1], ast.Constant) else ""
            right = vals[i + 1].value if i + 1 < len(vals) and isinstance(vals[i + 1], ast.Constant) else ""
            ok = (str(left).endswith("(") and str(right).startswith(")")) or (str(left).endswith("[") and str(right).startswith("]"))
            rep.check(ok, "C14.b", REND, f"line {js.lineno - fn.lineno}: {ast.unparse(js)[:90]}",
                      "a sub-expression's rendering is spliced into a larger C expression without enclosing parentheses: C re-associates it by its own precedence",
                      line=js.lineno)
    if n_sites < 12:
        raise AnalysisError(f"C14.b: only {n_sites} recursive interpolation sites found (floor 12)")
    # the index helper wraps its index in brackets
    bi = model.func("CodegenCtx._generate_buflike_index_expr")
    for js in [n for n in walk_no_nested(bi) if isinstance(n, ast.JoinedStr)]:
        src = ast.unparse(js)
        rep.check("[{index_expr}]" in src, "C14.b", "CodegenCtx._generate_buflike_index_expr", src[:80], "index is not enclosed in brackets")
    # use sites are self-delimiting
    uses = {"SetTo": r"= \{value\};", "IF": r"\(\{self\._generate_condition\(", "cast": r"\)\(\{target_expression\}\)"}
    act = ast.unparse(model.func("CodegenCtx._generate_action_implementation")) + ast.unparse(model.func("CodegenCtx._generate_condition_point_body"))
    for k, rx in uses.items():
        rep.check(re.search(rx, act) is not None, "C14.b", "CodegenCtx._generate_action_implementation", f"use site {k} is self-delimiting", f"use site pattern {rx} not found")

    # ------------------------------------------------------------------ C14.c operator tokens agree end to end
    rep.rule("C14.c", "terminal languages = enum values; parser maps token text to the enum by value; renderer emits that value")
    def enum_vals(cls):
        return {ast.literal_eval(v) for _, v in model.enum_members(cls)}
    rep.check(enum_vals("MulIntegerExprOp") == g.terminal_language("MUL_OP"), "C14.c", "MulIntegerExprOp", "values = language of MUL_OP",
              f"{enum_vals('MulIntegerExprOp')} vs {g.terminal_language('MUL_OP')}")
    rep.check(enum_vals("CompareIntegerExprOp") == g.terminal_language("CMP_OP"), "C14.c", "CompareIntegerExprOp", "values = language of CMP_OP",
              f"{enum_vals('CompareIntegerExprOp')} vs {g.terminal_language('CMP_OP')}")
    # enum member NAME <-> symbol sanity (renderer emits .value, evaluator uses names)
    name_sym = {"MUL": "*", "DIV": "/", "MOD": "%", "LT": "<", "GT": ">", "LE": "<=", "GE": ">=", "EQ": "==", "NE": "!=", "OR": "|", "XOR": "^", "AND": "&"}
    for cls in ("MulIntegerExprOp", "CompareIntegerExprOp", "BitwiseIntegerExprOp"):
        for nme, v in model.enum_members(cls):
            rep.check(name_sym.get(nme) == ast.literal_eval(v), "C14.c", cls, f"{nme} = {ast.literal_eval(v)!r}", f"{cls}.{nme} renders as {ast.literal_eval(v)!r}, expected {name_sym.get(nme)!r}")
    pm = model.func("ParseCtx._parse_math_expr")
    d = dispatch_on(pm.body, "expr.data", ctx.module_str_lists())
    def arm_src(label):
        a = d.arm_for(label)
        if a is None:
            raise AnalysisError(f"_parse_math_expr has no arm for {label}")
        return " ".join(ast.unparse(s) for s in a)
    s = arm_src("mul_expr")
    rep.check(re.search(r"MulIntegerExprOp\((\w+)\.value\) for \1 in expr\.children\[1::2\]", s) is not None and "expr.children[::2]" in s and "[MulIntegerExprOp.MUL, *" in s, "C14.c", "ParseCtx._parse_math_expr",
              "mul: operands children[::2], operators children[1::2] mapped by value", "mul_expr operand/operator pairing changed")
    s = arm_src("sum_expr")
    rep.check(re.search(r"\[False, \*\((\w+)\.value == '-' for \1 in expr\.children\[1::2\]\)\]", s) is not None and "expr.children[::2]" in s, "C14.c", "ParseCtx._parse_math_expr",
              "sum: negate flag is (token == '-'), first operand positive", "sum_expr operator mapping changed")
    s = arm_src("comp_expr")
    rep.check("CompareIntegerExprOp(expr.children[1].value)" in s and "expr.children[0]" in s and "expr.children[2]" in s, "C14.c", "ParseCtx._parse_math_expr",
              "comparison: left=children[0], op=children[1] by value, right=children[2]", "comp_expr mapping changed")
    s = arm_src("shift_expr")
    m = re.search(r"BitShiftIntegerExpr\(self\._parse_integer_expr\(expr\.children\[0\].*?\), self\._parse_integer_expr\(expr\.children\[2\].*?\), expr\.children\[1\]\.value == '<<'\)", s)
    rep.check(m is not None, "C14.c", "ParseCtx._parse_math_expr", "shift: left=children[0], right=children[2], towards_left = (token == '<<')", "shift_expr mapping changed")
    s = arm_src("bit_or_expr")
    rep.check("'bit_or_expr': BitwiseIntegerExprOp.OR" in s and "'bit_xor_expr': BitwiseIntegerExprOp.XOR" in s and "'bit_and_expr': BitwiseIntegerExprOp.AND" in s, "C14.c",
              "ParseCtx._parse_math_expr", "bitwise layer label -> operator table", "bitwise label/operator table changed")
    s = arm_src("not_expr")
    rep.check(re.search(r"CompareIntegerExpr\(self\._parse_integer_expr\(expr\.children\[0\].*?\), LiteralIntegerExpr\(False, OutputStorageType\.BOOL\), CompareIntegerExprOp\.EQ\)", s) is not None,
              "C14.c", "ParseCtx._parse_math_expr", "!x is x == false", "not_expr desugaring changed")
    s = arm_src("negate_expr")
    rep.check(re.search(r"SumIntegerExpr\(\[LiteralIntegerExpr\(0\), self\._parse_integer_expr\(expr\.children\[0\].*?\)\], \[False, True\]\)", s) is not None,
              "C14.c", "ParseCtx._parse_math_expr", "-x is 0 - x", "negate_expr desugaring changed")
    s = arm_src("conjunction_expr") + arm_src("disjunction_expr")
    rep.check("ConjunctionIntegerExpr([" in s and "DisjunctionIntegerExpr([" in s, "C14.c", "ParseCtx._parse_math_expr", "logical layers build n-ary nodes in order", "logical layer mapping changed")
    # renderer side
    arms, resid = isinstance_chain(fn.body, "intexpr")
    arm_of = {}
    for cls_list, body in arms:
        for c in cls_list:
            arm_of[c] = " ".join(ast.unparse(s) for s in body)
    def need(cls, pat, what):
        src = arm_of.get(cls)
        if src is None:
            raise AnalysisError(f"renderer has no arm for {cls}")
        rep.check(re.search(pat, src) is not None, "C14.c", REND, f"{cls}: {what}", f"renderer arm for {cls} no longer matches: {what}")
    need("SumIntegerExpr", r"result \+= '-' if operator else '\+'", "emits '-' for negated operands else '+'")
    need("SumIntegerExpr", r"zip\(intexpr\.children\[1:\], intexpr\.negate\[1:\]\)", "pairs operand i with negate flag i")
    need("MulIntegerExpr", r"result \+= operator\.value", "emits the operator enum's value")
    need("MulIntegerExpr", r"zip\(intexpr\.children\[1:\], intexpr\.divide\[1:\]\)", "pairs operand i with operator i")
    need("CompareIntegerExpr", r"\{intexpr\.op\.value\}", "emits the comparison enum's value between left and right")
    need("CompareIntegerExpr", r"intexpr\.left.*intexpr\.op\.value.*intexpr\.right", "left op right order")
    need("BitwiseIntegerExpr", r"result \+= intexpr\.op\.value", "emits the bitwise enum's value")
    need("BitShiftIntegerExpr", r"'<<' if intexpr\.towards_left else '>>'", "emits << iff towards_left")
    need("BitShiftIntegerExpr", r"intexpr\.left.*towards_left.*intexpr\.right", "left shift right order")
    need("DisjunctionIntegerExpr", r"'\|\|' if isinstance\(intexpr, DisjunctionIntegerExpr\) else '&&'", "|| for disjunction, && for conjunction")
    need("LastCharIntegerExpr", r"return f?'\(inval\)'", "$last is the current byte")
    need("OutIntegerExpr", r"state->c\.\{intexpr\.ref\.name\}", "variable read")
    need("StringLengthIntegerExpr", r"state->\{intexpr\.ref\.name\}_counter", "string length is its counter")
    lit = ast.unparse(model.func("CodegenCtx._convert_literal_value"))
    rep.check(model.has("CodegenCtx._convert_literal_value", "'true' if literal.get_literal_result() else 'false'") and (model.has("CodegenCtx._convert_literal_value", "str(literal.get_literal_result())") or
                (model.has("CodegenCtx._convert_literal_value", "value = literal.get_literal_result()") and model.has("CodegenCtx._convert_literal_value", "str(value)"))), "C14.c", "CodegenCtx._convert_literal_value",
              "bool -> true/false, int -> decimal", "literal rendering changed")

    # ------------------------------------------------------------------ C14.d coercions
    rep.rule("C14.d", "integer conditions are wrapped as != 0; declared width/sign select exactly the C type of that width")
    ic = ast.unparse(model.func("IntegerCondition.__init__"))
    rep.check(model.has("IntegerCondition.__init__", "CompareIntegerExpr(expr, LiteralIntegerExpr(0), CompareIntegerExprOp.NE)") and model.has("IntegerCondition.__init__", "expr.result_type() == OutputStorageType.INT"), "C14.d",
              "IntegerCondition.__init__", "INT condition -> (expr) != 0", "integer-to-bool coercion of conditions changed")
    check_width_table(rep, model)
    od = ast.unparse(model.func("CodegenCtx._get_state_object_out_declaration"))
    rep.check(model.has("CodegenCtx._get_state_object_out_declaration", "self._integer_containing(signed=out_decl.int_signed, width=out_decl.int_width)"), "C14.d", "CodegenCtx._get_state_object_out_declaration",
              "int outputs declared from their signedness and width", "int declaration no longer uses the declared sign/width")
    po = ast.unparse(model.func("ParseCtx._parse_out_decl"))
    rep.check(model.has("ParseCtx._parse_out_decl", "kwargs['int_signed'] = attr.children[0].value == 'signed'") and (model.has("ParseCtx._parse_out_decl", "kwargs['int_width'] = int(attr.children[0].value)") or model.has("ParseCtx._parse_out_decl", "kwargs['int_width'] = self._convert_int(attr.children[0].value)")), "C14.d", "ParseCtx._parse_out_decl",
              "signed/size attributes parsed", "int attribute parsing changed")

    # ------------------------------------------------------------------ C14.e same renderer everywhere
    rep.rule("C14.e", "assignment, char-append, if-condition and conditional-action contexts all obtain their text from _generate_code_for_int_expr")
    act = model.func("CodegenCtx._generate_action_implementation")
    arms, resid = isinstance_chain(act.body, "action")
    arm_of_a = {}
    for cls_list, body in arms:
        for c in cls_list:
            arm_of_a[c] = " ".join(ast.unparse(s) for s in body)
    rep.check("self._generate_code_for_int_expr(action.value_expr, ctx, target)" in arm_of_a.get("SetTo", ""), "C14.e", "CodegenCtx._generate_action_implementation", "SetTo uses the renderer",
              "assignment no longer renders its value through the shared renderer with the target's type")
    rep.check("self._generate_code_for_int_expr(action.append_value, ctx" in arm_of_a.get("AppendCharTo", ""), "C14.e", "CodegenCtx._generate_action_implementation", "AppendCharTo uses the renderer",
              "char append no longer uses the shared renderer")
    rep.check("self._generate_condition(condition, is_start or is_end, True)" in arm_of_a.get("ConditionalAction", ""), "C14.e", "CodegenCtx._generate_action_implementation",
              "conditional action conditions go through _generate_condition", "conditional action renders its condition differently")
    gc = ast.unparse(model.func("CodegenCtx._generate_condition"))
    rep.check(model.has("CodegenCtx._generate_condition", "return self._generate_code_for_int_expr(condition.expr, use_ctx)"), "C14.e", "CodegenCtx._generate_condition", "conditions use the renderer", "condition rendering changed")
    cp = ast.unparse(model.func("CodegenCtx._generate_condition_point_body"))
    rep.check(model.has("CodegenCtx._generate_condition_point_body", "self._generate_condition(condition.condition, from_end)"), "C14.e", "CodegenCtx._generate_condition_point_body", "if-statement conditions go through _generate_condition", "condition point renders differently")
    # no other function emits operator text for expressions
    others = [q for q, f in model.functions.items() if q != REND and q.startswith("CodegenCtx.") and re.search(r"intexpr\.op\.value|operator\.value", ast.unparse(f))]
    rep.check(not others, "C14.e", "CodegenCtx", "single renderer", f"expression operators are also rendered in {others}")


def check_width_table(rep, model):
    fn = model.func("CodegenCtx._integer_containing")
    tbl = None
    for n in walk_no_nested(fn):
        if isinstance(n, ast.Dict) and all(isinstance(k, ast.Constant) and isinstance(k.value, int) for k in n.keys):
            tbl = n
    if tbl is None:
        raise AnalysisError("width table not found in _integer_containing")
    widths = {ast.literal_eval(k): const_int(v) for k, v in zip(tbl.keys, tbl.values)}
    chains = {}
    for st in fn.body:
        if isinstance(st, ast.If) and ast.unparse(st.test) == "signed":
            for sub, sg in ((st.body, True), (st.orelse, False)):
                cur = [s for s in sub if isinstance(s, ast.If)][0]
                lst = []
                while True:
                    t = cur.test
                    ret = cur.body[0].value.value if cur.body and isinstance(cur.body[0], ast.Return) and isinstance(cur.body[0].value, ast.Constant) else None
                    if isinstance(t, ast.Compare) and isinstance(t.ops[0], ast.Lt):
                        lst.append((const_int(t.comparators[0]), ret))
                    if len(cur.orelse) == 1 and isinstance(cur.orelse[0], ast.If):
                        cur = cur.orelse[0]
                        continue
                    last = cur.orelse[0].value.value if cur.orelse and isinstance(cur.orelse[0], ast.Return) and isinstance(cur.orelse[0].value, ast.Constant) else None
                    lst.append((None, last))
                    break
                chains[sg] = lst
    if set(chains) != {True, False}:
        raise AnalysisError("_integer_containing: signed/unsigned chains not found")
    inc = any(isinstance(n, ast.AugAssign) and isinstance(n.op, ast.Add) and ast.unparse(n.target) == "maxval" and const_int(n.value) == 1 for n in walk_no_nested(fn))
    want = {(True, 1): "int8_t", (True, 2): "int16_t", (True, 4): "int32_t", (True, 8): "intmax_t",
            (False, 1): "uint8_t", (False, 2): "uint16_t", (False, 4): "uint32_t", (False, 8): "uintmax_t"}
    for (sg, w), typ in want.items():
        if w not in widths or widths[w] is None:
            rep.bad("C14.d", "CodegenCtx._integer_containing", f"width {w}", f"width {w} missing from the table")
            continue
        mv = widths[w] + (1 if (not sg and inc) else 0)
        got = None
        for T, t in chains[sg]:
            if T is None or mv < T:
                got = t
                break
        rep.check(got == typ, "C14.d", "CodegenCtx._integer_containing", f"{'signed' if sg else 'unsigned'} size {w} -> {typ}",
                  f"{'signed' if sg else 'unsigned'} size {w} is declared as {got}, expected {typ}: assignments no longer convert to the declared width")


def _shared(ctx, rep, tier):
    from .shared import delegate
    delegate(ctx, rep, tier, "C01", ("C01.k",), "C14.f", "expressions read the *current* values: assignments between statements keep their program order relative to the next statement's actions",
             where="DFA.append_after")
    delegate(ctx, rep, tier, "C05", ("C05.a",), "C14.g", "the optimiser merges transitions without reordering their assignments", where="DfaCompileCtx._optimize_shortcircuit_fallthroughs")


_run0 = run


def run(ctx, rep, tier):
    _run0(ctx, rep, tier)
    _shared(ctx, rep, tier)


# ---------------------------------------------------------------------------------------------------------------- C14.h
def _destination_typing(ctx, rep, tier):
    """C14.h: the destination of an assignment constrains the type of the expression's *result*. Operators whose operands have the result's
    type (arithmetic, bitwise, shifts, && ||) hand the destination on; a comparison's operands have types of their own and must be
    rendered without it - otherwise every comparison assigned to a bool is refused."""
    import ast
    from ..dispatch import isinstance_chain
    model = ctx.model
    rep.rule("C14.h", "destination typing: checked against the result of each (sub)expression; handed on to operands by the type-preserving operators, not by comparisons")
    q = "CodegenCtx._generate_code_for_int_expr"
    fn = model.func(q)
    arms, _ = isinstance_chain(fn.body, "intexpr")
    seen = 0
    for classes, body in arms:
        calls = [c for st in body for c in ast.walk(st) if isinstance(c, ast.Call) and ast.unparse(c.func) == "self._generate_code_for_int_expr"]
        if not calls:
            continue
        seen += 1
        passes = [len(c.args) >= 3 and ast.unparse(c.args[2]) == "out_expr" or any(k.arg == "out_expr" for k in c.keywords) for c in calls]
        if "CompareIntegerExpr" in classes:
            rep.check(not any(passes), "C14.h", q, "comparison: operands rendered without the destination", "the operands of a comparison are type-checked against the destination of the whole expression: "
                      "`b = [x < y];` (bool output, integer operands) is refused")
        elif set(classes) & {"SumIntegerExpr", "MulIntegerExpr", "BitwiseIntegerExpr", "BitShiftIntegerExpr", "ConjunctionIntegerExpr", "DisjunctionIntegerExpr"}:
            rep.check(all(passes), "C14.h", q, f"{'/'.join(classes)}: operands inherit the destination", f"{classes}: an operand is rendered without the destination although it has the result's type (type errors in operands go unnoticed)")
    if seen < 5:
        raise AnalysisError(f"C14.h: only {seen} recursive arms found in _generate_code_for_int_expr")
    # the same clause where the expression tree is built (seed C18-14): the operands of a comparison are parsed without the destination of the whole
    # expression - with it, an enum constant of the destination becomes a legal left operand of `<` against a number, and the constant folder compares str with int
    pq = "ParseCtx._parse_math_expr"
    pf = model.func(pq)
    arms = [n for n in ast.walk(pf) if isinstance(n, ast.If) and ast.unparse(n.test) in ("expr.data == 'comp_expr'", "'comp_expr' == expr.data")]
    if len(arms) != 1:
        raise AnalysisError(f"C14.h: comparison arm of {pq} not found")
    calls = [c for st in arms[0].body for c in ast.walk(st) if isinstance(c, ast.Call) and ast.unparse(c.func) in ("self._parse_integer_expr", "self._parse_math_expr")]
    hands_on = [c for c in calls if any(isinstance(a, ast.Name) and a.id == "into_storage" for a in c.args) or any(isinstance(k.value, ast.Name) and k.value.id == "into_storage" for k in c.keywords)]
    rep.check(len(calls) >= 2 and not hands_on, "C14.h", pq, "comparison: operands parsed without the destination of the whole expression",
              f"an operand of a comparison is parsed with the destination of the whole expression (`{ast.unparse(hands_on[0])[:80] if hands_on else '?'}`): an enum constant of the destination "
              "is accepted next to `<` and a number, and the compile-time evaluation of `'B' < 1` ends in a TypeError (`e = [B < 1];`)")
    top = [st for st in strip_doc(fn.body) if isinstance(st, ast.If) and ast.unparse(st.test) == "out_expr is not None"]
    rep.check(len(top) == 1 and "intexpr.result_type() != out_expr.type" in ast.unparse(top[0]) and any(isinstance(x, ast.Raise) for x in ast.walk(top[0])), "C14.h", q,
              "the result type of every rendered (sub)expression with a destination is compared with it (diagnosed error)", "destination type check changed")


_run_h14 = run


def run(ctx, rep, tier):
    _run_h14(ctx, rep, tier)
    _destination_typing(ctx, rep, tier)
    from .shared import delegate
    rep.rule("C14.k", "`<string>.len` is rendered as a signed 32-bit value: its arithmetic does not depend on the storage type of the length counter")
    fp = ctx.emit.enumerate("CodegenCtx._generate_code_for_int_expr", classes={"intexpr": "StringLengthIntegerExpr"})
    nlen = 0
    from ..emit import SStr
    for p in fp.paths:
        if p.end and p.end[0] == "return" and isinstance(p.end[1], SStr):
            nlen += 1
            txt = p.end[1].text()
            rep.check(txt == "(int32_t)state->[[intexpr.ref.name]]_counter", "C14.k", "CodegenCtx._generate_code_for_int_expr", "length = (int32_t) counter",
                      f"`.len` is rendered as `{txt}`: a uint32_t counter (capacity >= 65536) makes the surrounding arithmetic unsigned - `s.len - 1` is 4294967295 for an empty string, -1 for smaller capacities")
    if nlen < 1:
        raise AnalysisError("C14.k: no rendering of StringLengthIntegerExpr found")
    rep.rule("C14.l", "a constant is refused only where C's conversion to the declared width and signedness is not available: outside [-(2^(b-1)), 2^(b-1)-1] for signed, [-(2^(b-1)), 2^b-1] for unsigned outputs")
    q = "CodegenCtx._check_constant_fits"
    if ctx.model.has_func(q):
        rng = [n for n in ast.walk(ctx.model.func(q)) if isinstance(n, ast.If) and any(isinstance(x, ast.Raise) for x in n.body) and "constant" in ast.unparse(n.test)]
        ok = len(rng) == 1 and ast.unparse(rng[0].test) == "not -(1 << bits - 1) <= constant < 1 << (bits - 1 if target.int_signed else bits)" and \
            ctx.model.has(q, "bits = 8 * (target.int_width or 4)")
        # decide the bound expression over both signedness values and the four widths
        if ok:
            for signed in (True, False):
                for width in (1, 2, 4, 8, None):
                    bits = 8 * (width or 4)
                    lo, hi = -(1 << bits - 1), (1 << (bits - 1 if signed else bits)) - 1
                    want = (-(2 ** (bits - 1)), 2 ** (bits - 1) - 1) if signed else (-(2 ** (bits - 1)), 2 ** bits - 1)
                    ok = ok and (lo, hi) == want
        rep.check(ok, "C14.l", q, "range = what the C compiler converts without -Woverflow (negative constants wrap into unsigned outputs)",
                  "the constant range test changed: either constants the C compiler refuses are accepted again, or well-defined conversions (`u = [0 - 1]` into an unsigned output) are refused")
    else:
        rep.ok("C14.l", "CodegenCtx", "no constant range test (constants are left to the C compiler: C11.n)", nontrivial=False)
    delegate(ctx, rep, tier, "C01", ("C01.l",), "C14.i", "an expression's value is what the procedural reading gives: groups of assignments repeated per byte are refused when one reads what another writes (expression reads include index and operand reads)")
    delegate(ctx, rep, tier, "C13", ("C13.g",), "C14.j", "an expression passed as a macro argument means the same in every context it is used in (assignment, append, condition): all parse entry points switch to its call-site scope")


# ---------------------------------------------------------------------------------------------------------------- C14.m
def _folding_divides_like_c(ctx, rep, tier):
    """C14.m (F-104): a constant (sub)expression is folded at compile time - for default values, for the zero-divisor / shift-count / range refusals - with Python
    arithmetic. Python's // and % round towards minus infinity, C truncates towards zero and gives the remainder the dividend's sign: they agree only on operands of
    one sign. In the folding of `/` and `%` the floor operators may therefore only be applied to absolute values, with the sign put back afterwards."""
    import ast
    model = ctx.model
    rep.rule("C14.m", "constant folding of / and % follows C (quotient truncated towards zero, remainder with the dividend's sign)")
    q = "MulIntegerExpr.get_literal_result"
    fn = model.func(q)
    floor_ops = [n for n in ast.walk(fn) if (isinstance(n, (ast.BinOp, ast.AugAssign)) and isinstance(n.op, (ast.FloorDiv, ast.Mod)))]
    bad = []
    for n in floor_ops:
        operands = [n.left, n.right] if isinstance(n, ast.BinOp) else [n.target, n.value]
        if not all(isinstance(o, ast.Call) and ast.unparse(o.func) == "abs" for o in operands):
            bad.append(ast.unparse(n))
    rep.check(not bad, "C14.m", q, "// and % are applied to absolute values only",
              f"`{bad[0] if bad else ''}` folds with Python's floor semantics: `-1 / 2` is -1 and `-7 % 3` is 2 at compile time, 0 and -1 in the emitted C - the zero-divisor refusal "
              "lets `7 / (-1 / 2)` through (the C divides by zero) and a folded default value differs from what the same expression computes at run time",
              line=(floor_ops[0].lineno if floor_ops else fn.lineno))
    sign = model.has(q, "quotient = abs(total) // abs(value)\nif (total < 0) != (value < 0):\n    quotient = -quotient") and \
        model.has(q, "total = quotient if operator == MulIntegerExprOp.DIV else total - quotient * value")
    rep.check(bool(floor_ops) and sign, "C14.m", q, "sign restored: quotient negative iff the operands' signs differ; remainder = dividend - quotient * divisor",
              "the sign correction of the folded quotient / remainder changed")


_run_m14 = run


def run(ctx, rep, tier):
    _run_m14(ctx, rep, tier)
    _folding_divides_like_c(ctx, rep, tier)


# ---------------------------------------------------------------------------------------------------------------- C14.n
def _expression_tree_mirrors_parse_tree(ctx, rep, tier):
    """C14.n: the front end turns each operator node of the parse tree into one expression node over exactly its converted operands.

    C evaluates every parenthesised sub-expression on its own, in the type its operands give it (`total + (cur - prev)`: the difference of two uint32_t wraps
    modulo 2^32 before it is widened). An arm of the math parser that looks inside an already converted operand - splicing the children of a nested sum into
    the enclosing one, re-associating, hoisting - produces an algebraically equal expression whose C value differs. Necessary condition, decided per arm:
    the only node whose `.children` an arm of `_parse_math_expr` reads is the parse tree node it was given; operand lists grow by one converted operand at a
    time (no extend / insert / concatenation of another node's operands)."""
    model = ctx.model
    rep.rule("C14.n", "each operator arm of the math parser builds its node from exactly the converted operands of its parse-tree node: it never reads the "
                      "operands of an already converted sub-expression (no flattening / re-association: C evaluates a parenthesised operand in its own type)")
    q = "ParseCtx._parse_math_expr"
    pm = model.func(q)
    d = dispatch_on(pm.body, "expr.data", ctx.module_str_lists())
    param = pm.args.args[1].arg if len(pm.args.args) > 1 else "expr"
    n = 0
    for label in ("sum_expr", "mul_expr", "bit_or_expr", "bit_xor_expr", "bit_and_expr", "conjunction_expr", "disjunction_expr", "comp_expr", "shift_expr", "not_expr", "negate_expr"):
        arm = d.arm_for(label)
        if arm is None:
            raise AnalysisError(f"C14.n: _parse_math_expr has no arm for {label}")
        n += 1
        probs = []
        recursive = 0
        for st in arm:
            for node in ast.walk(st):
                if isinstance(node, ast.Attribute) and node.attr in ("children", "negate", "operators", "ops", "operands", "left", "right", "lhs", "rhs"):
                    base = node.value
                    # reading expr.children[..] (the parse node, or a child of it) is the normal case
                    root = base
                    while isinstance(root, (ast.Subscript, ast.Attribute)):
                        root = root.value
                    if not (isinstance(root, ast.Name) and root.id == param):
                        probs.append(f"reads `{ast.unparse(node)}`: the operands of an already converted sub-expression")
                if isinstance(node, ast.Call) and isinstance(node.func, ast.Attribute) and node.func.attr in ("extend", "insert"):
                    probs.append(f"`{ast.unparse(node)[:80]}`: an operand list grows by more (or elsewhere) than one converted operand per parse-tree operand")
                if isinstance(node, ast.Call) and isinstance(node.func, ast.Attribute) and node.func.attr in ("_parse_integer_expr", "_parse_math_expr"):
                    recursive += 1
        if recursive == 0:
            probs.append("no operand is converted by the recursive parser")
        rep.check(not probs, "C14.n", q, f"arm {label}", "; ".join(sorted(set(probs))) + " - an algebraically equal regrouping is not the same C expression: "
                  "`total + (cur - prev)` with 32-bit unsigned cur / prev and a 64-bit total must wrap the difference before widening")
    rep.floor("C14.n", 11)


_run_n14 = run


def run(ctx, rep, tier):
    _run_n14(ctx, rep, tier)
    _expression_tree_mirrors_parse_tree(ctx, rep, tier)


_run_r6 = run


def run(ctx, rep, tier):
    _run_r6(ctx, rep, tier)
    from .shared import delegate, delegate_fn
    from . import c11
    delegate_fn(ctx, rep, tier, c11._values_and_names_in_c, ("C11.n",), "C14.o", "integer constants are emitted with the type C gives a decimal constant of that value (signed; suffixed from 2^63): a spelling "
                "that retypes them (hex / octal: unsigned int from 2^31) changes the arithmetic around them", prop="C11")
    delegate(ctx, rep, tier, "C03", ("C03.g",), "C14.p", "s[i] evaluates to 0 outside 0 <= i < length: both bounds are tested for every index expression that can be negative")
