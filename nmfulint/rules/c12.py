"""C12 - representation options never change what is parsed (DESIGN.md section 3, C12): template bisimulation
modulo a representation map."""
import ast, re
from ..core import AnalysisError
from ..emit import Line, LoopBlock, CallBlock, SStr
from ..srcmodel import walk_no_nested, is_flag_test

EXPLANATION = (
    "Relational, but per template. For a set R of representation atoms (a flag, plus atoms only consulted under it) and "
    "every pair of emission units (a template path, or one alternative of a template loop body) that agree on all other "
    "atoms, the emitted line sequences must be equal after applying R's normalisation map (pointer mode: (*start)->start; "
    "hook mode: both call forms -> HOOK(name,args); char/uint8_t casts; heap modes: allocation events dropped, array vs "
    "pointer declarator). Any residual difference names the two units. C12.a additionally confines each representation "
    "flag to the generator functions that the bisimulation covers (a read elsewhere - parse or DFA stage - could steer "
    "the machine itself). Header-only options are checked to touch header text only.")
NOT_DECIDED = ("COLLAPSED_RANGE_LENGTH / COLLAPSE_TRANSITION_RANGES arithmetic over code points (range tests vs equality tests) - "
               "run-time values; equality of the *machines* under different options (options are read only by codegen: C12.a)")
ENGINES = ["E1 source model", "E5 emission-path enumerator", "E7 flag table"]

ACT = "CodegenCtx._generate_action_implementation"
CG = "CodegenCtx."

HEADER_ONLY = {"INCLUDE_USER_PTR", "USE_PACKED_ENUMS", "USE_PRAGMA_ONCE", "USE_CPLUSPLUS_GUARD"}
MEM = {"ALLOCATE_STR_SPACE_DYNAMIC", "ALLOCATE_STR_SPACE_DYNAMIC_ON_DEMAND", "DELETE_STRING_FREE_MEMORY", "ALLOCATE_STR_SPACE_IN_STRUCT", "DYNAMIC_MEMORY"}
REPR_FLAGS = {"INDIRECT_START_PTR", "HOOK_GLOBAL", "HOOK_PER_STATE", "STRINGS_AS_U8", "ZERO_LEN_INPUT_SUPPORT"} | HEADER_ONLY | MEM


# ------------------------------------------------------------------------------------------ units
def units(fp):
    """-> list of (unit id, valuation, [texts]); loop bodies become their own units, a loop is a marker line in its parent."""
    out = []

    def rec(items, val, uid):
        texts = []
        for it in items:
            if isinstance(it, LoopBlock):
                texts.append(f"@@LOOP {it.iter_src}")
                for i, (delta, sub, endk, end) in enumerate(it.bodies):
                    v2 = dict(val)
                    v2.update(delta)
                    rec(sub, v2, uid + f"/loop@{it.lineno}({it.iter_src})")
            else:
                texts.append(it.text())
        out.append((uid, val, texts))

    for p in fp.paths:
        if p.end and p.end[0] == "raise":
            continue
        rec(fp.lines(p), p.valuation(), "top")
        if p.end and p.end[0] == "return" and isinstance(p.end[1], SStr):
            out.append(("ret", p.valuation(), [p.end[1].text()]))
    return [u for u in out if feasible_flags(u[1])]


_FLAGS = [None]


def feasible_flags(val):
    """Drop valuations the flag resolution can never produce: A on with an implied flag off, or two mutually exclusive flags on."""
    ft = _FLAGS[0]
    on = {k[2:] for k, b in val.items() if k.startswith("F:") and b}
    off = {k[2:] for k, b in val.items() if k.startswith("F:") and not b}
    for a in on:
        if a not in ft.flags:
            continue
        if ft.implied_closure(a) & off:
            return False
        for x in ft.flags[a].exclusive_with:
            b = ft.by_value.get(x)
            if b is not None and b.name in on:
                return False
    return True


def compatible(v1, v2, R):
    for k, b in v1.items():
        if k in R:
            continue
        if k in v2 and v2[k] != b:
            return False
    return True


def bisim(rep, rule, fnq, fp, R, normalise, label, floor=1, exception=None):
    """All units agreeing outside R must have equal normal forms."""
    us = units(fp)
    n_pairs = 0
    differing = 0
    for i in range(len(us)):
        for j in range(i + 1, len(us)):
            (id1, v1, t1), (id2, v2, t2) = us[i], us[j]
            if id1 != id2:
                continue
            r1 = {k: v1[k] for k in v1 if k in R}
            r2 = {k: v2[k] for k in v2 if k in R}
            if r1 == r2:
                continue
            if not compatible(v1, v2, R) or not compatible(v2, v1, R):
                continue
            n1, n2 = normalise(t1, v1), normalise(t2, v2)
            if exception is not None:
                n1, n2 = exception(n1, v1, n2, v2)
            n_pairs += 1
            if n1 != n2:
                differing += 1
                d1 = [x for x in n1 if x not in n2][:3]
                d2 = [x for x in n2 if x not in n1][:3]
                core1 = ", ".join(f"{k[2:] if k.startswith('F:') else k}={'T' if b else 'F'}" for k, b in sorted(r1.items()))
                core2 = ", ".join(f"{k[2:] if k.startswith('F:') else k}={'T' if b else 'F'}" for k, b in sorted(r2.items()))
                rep.bad(rule, fnq, f"{label}: [{core1}] vs [{core2}]",
                        f"emissions differ beyond the representation map: only under [{core1}]: {d1}; only under [{core2}]: {d2}")
    if n_pairs < floor:
        raise AnalysisError(f"{rule} {label}: only {n_pairs} comparable unit pairs (floor {floor}) - the option is no longer consulted where expected")
    if not differing:
        rep.ok(rule, fnq, f"{label}: {n_pairs} unit pairs equal modulo the representation map", detail={"pairs": n_pairs})
        rep.bulk_ok(rule, max(n_pairs - 1, 0))
    rep.count(f"bisim_pairs:{label}", n_pairs)
    return n_pairs


# ------------------------------------------------------------------------------------------ normalisers
def norm_pointer(texts, v):
    out = []
    for t in texts:
        t = t.replace("**start", "«D»")
        t = t.replace("(*start)", "start")
        t = re.sub(r"(?<![\w*])\*start == end", "start == end", t)
        t = t.replace("const uint8_t «D»", "const uint8_t *start") if "const uint8_t «D»" in t else t
        t = t.replace("«D»", "*start")
        out.append(t.strip())
    return [t for t in out if t and not t.startswith("//")]


def norm_hook(texts, v):
    out = []
    for t in texts:
        t = re.sub(r"^\s*\[\[prog\]\]_(\[\[.*?\]\])_hook\((.*)\);", r"HOOK(\1)(\2);", t)
        t = re.sub(r"^\s*\(state->(\[\[.*?\]\])_hook\)\((.*)\);", r"HOOK(\1)(\2);", t)
        out.append(t.strip())
    return [t for t in out if t and not t.startswith("//")]


def norm_u8(texts, v):
    out = []
    for t in texts:
        t = re.sub(r"\((?:char|uint8_t)\)\(", "(CH)(", t)
        t = re.sub(r"^\s*(?:char|uint8_t) (\*? ?\[\[)", r"CH \1", t)
        out.append(t.strip())
    return [t for t in out if t and not t.startswith("//")]


ALLOC_RX = [re.compile(r"^if \(!state->c\.(\S+?)\) state->c\.\1 = malloc\(.*\);$"), re.compile(r"^state->c\.\S+ = malloc\(.*\);$"),
            re.compile(r"^free\(state->c\.\S+\);$"), re.compile(r"^state->c\.\S+ = NULL;$")]


def norm_mem(texts, v):
    out = []
    for t in texts:
        t = t.strip()
        if not t or t.startswith("//"):
            continue
        if any(rx.match(t) for rx in ALLOC_RX):
            continue
        t = re.sub(r"^if \(state->c\.(\S+?)\) (state->c\.\1\[0\] = 0;)$", r"\2", t)
        t = re.sub(r"state->c\.\S+? != NULL && ", "", t)
        t = re.sub(r"^(?:char|uint8_t) \* (\[\[\w+\.name\]\])$", r"STRDECL \1", t)
        t = re.sub(r"^(char|uint8_t) (\[\[\w+\.name\]\])\[\[\[\w+\.str_size\]\]\]$", r"STRDECL \2", t)
        out.append(t)
    return out


def mem_exception(n1, v1, n2, v2):
    """Named exception: the freeing arm of DeleteBuf (pointer is NULL afterwards) omits the `[0] = 0` write."""
    def freed(v):
        return v.get("F:ALLOCATE_STR_SPACE_DYNAMIC_ON_DEMAND") and v.get("F:DELETE_STRING_FREE_MEMORY") and v.get("is_start") is False
    strip = lambda n: [t for t in n if not re.match(r"^state->c\.\S+\[0\] = 0;$", t)]
    if freed(v1) != freed(v2):
        return strip(n1), strip(n2)
    return n1, n2


def run(ctx, rep, tier):
    model, E, flags = ctx.model, ctx.emit, ctx.flags
    _FLAGS[0] = flags
    classes = [c for c in model.concrete_subclasses("Action") if c != "Action"]

    # ------------------------------------------------------------------ C12.a who reads representation flags
    rep.rule("C12.a", "representation flags are read only by CodegenCtx generator functions (never by the parse or DFA stages), header-only "
                      "flags only by header generators, ZERO_LEN_INPUT_SUPPORT only by the feed-entry test")
    readers = {}
    for q, f in model.functions.items():
        for n in walk_no_nested(f):
            fl = is_flag_test(n)
            if fl in REPR_FLAGS:
                readers.setdefault(fl, set()).add(q)
    header_fns = {"CodegenCtx.generate_header", "CodegenCtx._generate_state_object_decl", "CodegenCtx._generate_out_enum"}
    infra = {"ProgramData.load_commandline_flags", "ProgramData._print_help"}
    for fl in sorted(REPR_FLAGS):
        if fl not in flags.flags:
            raise AnalysisError(f"representation flag {fl} no longer declared")
        rs = readers.get(fl, set()) - infra
        if fl in HEADER_ONLY:
            bad = rs - header_fns
            rep.check(not bad, "C12.a", "ProgramFlag." + fl, "header-only option read by " + ", ".join(sorted(rs)) if rs else "header-only option (unread)",
                      f"{fl} is now read outside the header generators ({sorted(bad)}): it can change parser code")
        elif fl == "ZERO_LEN_INPUT_SUPPORT":
            rep.check(rs <= {"CodegenCtx._needs_end_check"}, "C12.a", "ProgramFlag." + fl, "read only by _needs_end_check",
                      f"ZERO_LEN_INPUT_SUPPORT read by {sorted(rs)}: it may only add the feed-entry test")
        else:
            bad = {r for r in rs if not r.startswith(CG)}
            rep.check(not bad, "C12.a", "ProgramFlag." + fl, "read only by code generation: " + ", ".join(sorted(x.split('.')[1] for x in rs)),
                      f"{fl} is read by {sorted(bad)} outside code generation: a representation option now steers parsing/compilation")
    # zero-length support adds only the entry test: _needs_end_check's only consumer is the feed prologue
    users = [q for q, f in model.functions.items() if any(isinstance(n, ast.Call) and isinstance(n.func, ast.Attribute) and n.func.attr == "_needs_end_check" for n in walk_no_nested(f))]
    rep.check(users == ["CodegenCtx._generate_feed_implementation"], "C12.a", "CodegenCtx._needs_end_check", "consumed only by the feed prologue", f"used by {users}")

    # ------------------------------------------------------------------ C12.b pointer mode
    rep.rule("C12.b", "INDIRECT_START_PTR: emissions are equal after (*start)->start, **start->*start")
    R = {"F:INDIRECT_START_PTR"}
    for q, fl in (("CodegenCtx._generate_transition_body", 30), ("CodegenCtx._generate_feed_implementation", 2), ("CodegenCtx.generate_header", 32)):
        bisim(rep, "C12.b", q, E.enumerate(q), R, norm_pointer, "pointer mode in " + q.split(".")[1], floor=fl)
    for cl in classes:
        fp = E.enumerate(ACT, classes={"action": cl})
        if any("F:INDIRECT_START_PTR" in p.atoms for p in fp.paths):
            bisim(rep, "C12.b", ACT, fp, R, norm_pointer, f"pointer mode in action {cl}")

    # ------------------------------------------------------------------ C12.c hook mode
    rep.rule("C12.c", "HOOK_GLOBAL / HOOK_PER_STATE: both call forms pass (state, same argument); prototypes vs members checked under C11.b")
    R = {"F:HOOK_GLOBAL", "F:HOOK_PER_STATE"}
    bisim(rep, "C12.c", ACT, E.enumerate(ACT, classes={"action": "CallHook"}), R, norm_hook, "hook mode in action CallHook", floor=3)
    for cl in classes:
        if cl == "CallHook":
            continue
        fp = E.enumerate(ACT, classes={"action": cl})
        if any(R & set(p.atoms) for p in fp.paths):
            bisim(rep, "C12.c", ACT, fp, R, norm_hook, f"hook mode in action {cl}")

    # ------------------------------------------------------------------ C12.d char / uint8_t
    rep.rule("C12.d", "STRINGS_AS_U8 only changes the element type in casts and declarations")
    R = {"F:STRINGS_AS_U8"}
    n = 0
    for cl in classes:
        fp = E.enumerate(ACT, classes={"action": cl})
        if any("F:STRINGS_AS_U8" in p.atoms for p in fp.paths):
            n += bisim(rep, "C12.d", ACT, fp, R, norm_u8, f"string element type in action {cl}", floor=4)
    fp = E.enumerate("CodegenCtx._get_state_object_out_declaration")
    n += bisim(rep, "C12.d", "CodegenCtx._get_state_object_out_declaration", fp, R, norm_u8, "string element type in declarations", floor=2)
    if n < 10:
        raise AnalysisError("C12.d: too few comparisons")

    # ------------------------------------------------------------------ C12.e heap modes
    rep.rule("C12.e", "string storage options (in-struct / heap / on-demand / free-on-delete) only add or drop allocation events; writes, bounds, "
                      "counters and terminators are identical (named exception: the freeing delete arm has no buffer to terminate)")
    R = {"F:ALLOCATE_STR_SPACE_DYNAMIC", "F:ALLOCATE_STR_SPACE_DYNAMIC_ON_DEMAND", "F:DELETE_STRING_FREE_MEMORY",
         "action.into_storage.default_value is None", "out_expr.default_value is None", "F:DYNAMIC_MEMORY"}
    for cl in ("SetToStr", "DeleteBuf", "AppendTo", "AppendCharTo"):
        fp = E.enumerate(ACT, classes={"action": cl})
        bisim(rep, "C12.e", ACT, fp, R, norm_mem, f"heap modes in action {cl}", floor=4, exception=mem_exception if cl == "DeleteBuf" else None)
    for cl in classes:
        if cl in ("SetToStr", "DeleteBuf", "AppendTo", "AppendCharTo"):
            continue
        fp = E.enumerate(ACT, classes={"action": cl})
        if any(set(p.atoms) & R for p in fp.paths):
            bisim(rep, "C12.e", ACT, fp, R, norm_mem, f"heap modes in action {cl}")
    fp = E.enumerate("CodegenCtx._generate_code_for_int_expr", classes={"intexpr": "StringRefIntegerExpr"})
    bisim(rep, "C12.e", "CodegenCtx._generate_code_for_int_expr", fp, R, norm_mem, "heap modes in index read", floor=0)
    fp = E.enumerate("CodegenCtx._get_state_object_out_declaration")
    bisim(rep, "C12.e", "CodegenCtx._get_state_object_out_declaration", fp, R, norm_mem, "heap modes in declarations", floor=2)
    # start(): the default copy and counters are identical in all modes
    fp = E.enumerate("CodegenCtx._generate_start_implementation")
    Rs = R - {"out_expr.default_value is None"}
    bisim(rep, "C12.e", "CodegenCtx._generate_start_implementation", fp, Rs, norm_mem_start, "heap modes in start()", floor=4)
    loop_ids = {}
    for uid, val, texts in units(fp):
        if "/loop@" in uid and "self.state_object_spec" in uid:
            loop_ids.setdefault(uid, []).append((val, texts))
    if len(loop_ids) == 2:      # no initial-terminator loop: C03.n reports that; nothing representation-dependent to compare here
        loop_ids["~none/loop@999999"] = []
    if len(loop_ids) != 3:
        raise AnalysisError("start(): expected three loops over the outputs (defaults, heap init, initial terminator)")
    second = sorted(loop_ids, key=lambda u: int(re.search(r"loop@(\d+)", u).group(1)))[1]
    third = sorted(loop_ids, key=lambda u: int(re.search(r"loop@(\d+)", u).group(1)))[2]
    # named exception to 'identical in all modes': with on-demand allocation there is no buffer yet, so the initial terminator write is absent (NULL stands for the empty string)
    for val, texts in loop_ids[third]:
        body = [t.strip() for t in texts if t.strip() and not t.strip().startswith("//") and not t.strip().startswith("@@")]
        on_demand = val.get("F:ALLOCATE_STR_SPACE_DYNAMIC_ON_DEMAND") is True
        rep.check(all(re.fullmatch(r"state->c\.\[\[out_expr\.name\]\]\[0\] = 0;", t) for t in body) and not (on_demand and body), "C12.e", "CodegenCtx._generate_start_implementation",
                  "initial-terminator loop emits only `x[0] = 0`, and nothing under on-demand allocation", f"the terminator loop of start() emits {body} (on-demand: {on_demand})")
    for val, texts in loop_ids[second]:
        rest = norm_mem(texts, val)
        rep.check(rest == [] and val.get("F:ALLOCATE_STR_SPACE_DYNAMIC") is True, "C12.e", "CodegenCtx._generate_start_implementation",
                  "heap-init loop emits allocation events only", f"the DYNAMIC-only loop of start() emits {rest}: parser state now depends on the storage option")

    # ------------------------------------------------------------------ C12.f header-only options keep the enumerator lists and members identical
    rep.rule("C12.f", "INCLUDE_USER_PTR / USE_PACKED_ENUMS / USE_PRAGMA_ONCE / USE_CPLUSPLUS_GUARD change only their own header lines")
    def norm_hdr(texts, v):
        out = []
        for t in texts:
            t = t.strip()
            if not t or t.startswith("//"):
                continue
            if t in ("#pragma once", "#endif", "#ifdef __cplusplus", 'extern "C" {', "}", "void * userptr;") or t.startswith("#ifndef ") or t.startswith("#define "):
                continue
            t = t.replace("enum __attribute__((packed)) ", "enum ")
            out.append(t)
        return out
    Rh = {"F:" + f for f in HEADER_ONLY}
    bisim(rep, "C12.f", "CodegenCtx.generate_header", E.enumerate("CodegenCtx.generate_header"), Rh, norm_hdr, "header-only options in generate_header", floor=32)
    bisim(rep, "C12.f", "CodegenCtx._generate_state_object_decl", E.enumerate("CodegenCtx._generate_state_object_decl"), Rh, norm_hdr,
          "header-only options in the state struct", floor=4)
    bisim(rep, "C12.f", "CodegenCtx._generate_out_enum", E.enumerate("CodegenCtx._generate_out_enum"), Rh, norm_hdr, "packed enums in out enums", floor=1)
    run_range(ctx, rep)


def run_range(ctx, rep):
    rep.rule("C12.g", "range-collapse threshold: the run detection restarts at gaps, so the set of bytes a collapsed test accepts does not depend on the threshold "
                      "(necessary structural condition; the arithmetic itself is not decided)")
    from .c06 import check_range_runs
    check_range_runs(ctx, rep, "C12.g")


def norm_mem_start(texts, v):
    out = [t for t in norm_mem(texts, v) if not re.fullmatch(r"state->c\.\[\[out_expr\.name\]\]\[0\] = 0;", t)]      # initial terminator: checked separately (C12.e, third loop)
    # the second loop over the outputs exists only under DYNAMIC; its body may emit allocation events only (checked separately)
    seen = set()
    res = []
    for t in out:
        if t.startswith("@@LOOP"):
            if t in seen:
                continue
            seen.add(t)
        res.append(t)
    return res


def _shared(ctx, rep, tier):
    from .shared import delegate
    delegate(ctx, rep, tier, "C03", ("C03.f", "C03.c", "C03.n"), "C12.i", "heap modes initialise a string exactly once in start(): default copied, or allocated / NULLed, split on 'has a default'",
             where="CodegenCtx._generate_start_implementation", pred=lambda v: "start" in v.function)
    delegate(ctx, rep, tier, "C03", ("C03.e", "C03.f"), "C12.l", "string storage options only add or drop allocation events that every template agrees on: wherever one template can leave a "
             "heap string's pointer NULL (delete that frees, on-demand start) every template that writes it allocates first, and every allocation has the full declared size",
             where="CodegenCtx._generate_action_implementation", pred=lambda v: "start" not in v.function)
    rep.rule("C12.j", "an indexed string read yields the byte value in every element-type mode: the element is read through a uint8_t cast (plain char may be signed)")
    fp = ctx.emit.enumerate("CodegenCtx._generate_code_for_int_expr", classes={"intexpr": "StringRefIntegerExpr"})
    n = 0
    for p in fp.paths:
        if not p.end or p.end[0] != "return" or not isinstance(p.end[1], SStr):
            continue
        v = p.valuation()
        if v.get("intexpr.ref.type == OutputStorageType.RAW") is True:
            continue
        txt = p.end[1].text()
        n += 1
        reads = re.findall(r"(\(uint8_t\)\s*)?state->c\.\[\[intexpr\.ref\.name\]\]\[", txt)
        rep.check(bool(reads) and all(r for r in reads), "C12.j", "CodegenCtx._generate_code_for_int_expr", "string element read through (uint8_t)",
                  f"`{txt[:120]}` reads a string element with its declared type: `char` is signed on common targets, so for bytes >= 0x80 `s[i] == 200` differs between char and "
                  "uint8_t strings (-fstrings-as-u8 changes the parse)")
    if n < 2:
        raise AnalysisError("C12.j: index read paths not found")
    rep.rule("C12.h", "zero-length-input support only adds the entry test; without the flag the test is still emitted whenever a transition may return early (shared with C02.d)")
    from .c02 import check_needs_end_check
    check_needs_end_check(ctx, rep, "C12.h")


_run0 = run


def run(ctx, rep, tier):
    _run0(ctx, rep, tier)
    _shared(ctx, rep, tier)


def _index_bound_is_length(ctx, rep, tier):
    """C12.k: what an indexed read of a string yields must not depend on where the string lives. Bytes beyond the current length differ between
    modes (stale bytes after a delete, freed buffer, caller's memory before the first write), so the bound of a safe read is the length counter."""
    rep.rule("C12.k", "a safe indexed read of a string is bounded by the string's length counter (bytes beyond it differ between storage modes)")
    fp = ctx.emit.enumerate("CodegenCtx._generate_code_for_int_expr", classes={"intexpr": "StringRefIntegerExpr"})
    n = 0
    for p in fp.paths:
        if not p.end or p.end[0] != "return" or not isinstance(p.end[1], SStr):
            continue
        v = p.valuation()
        if v.get("F:UNSAFE_STRING_INDEXING") is not False or v.get("intexpr.ref.type == OutputStorageType.RAW") is True or v.get("intexpr.ref.type == OutputStorageType.STR") is False:
            continue        # raw outputs keep their sizeof bound; a reference that is neither str nor raw cannot be constructed (StringRefIntegerExpr.__init__)
        txt = p.end[1].text()
        n += 1
        rep.check("< (long)state->[[intexpr.ref.name]]_counter)" in txt, "C12.k", "CodegenCtx._generate_code_for_int_expr", f"bound is the length counter [{len(txt)} chars]",
                  f"`{txt[:140]}` bounds the index by the capacity: after `delete s` the old bytes are still read, except when deleting frees the buffer (0) - outputs and conditions then depend on the storage option")
    if n < 2:
        raise AnalysisError(f"C12.k: only {n} safe string index paths found")


_run_k12 = run


def run(ctx, rep, tier):
    _run_k12(ctx, rep, tier)
    _index_bound_is_length(ctx, rep, tier)
