"""C03 - generated parsers are memory-safe and respect output capacities (DESIGN.md section 3, C03)."""
import ast, re
from ..core import AnalysisError
from ..tmpl import flatten_items
from ..cevents import events_of, Ev
from ..emit import Line, LoopBlock, CallBlock, SStr, SSym, SConst
from ..evalx import linear, const_int
from ..srcmodel import walk_no_nested, strip_doc, calls_in

EXPLANATION = (
    "Every read/write of an output buffer in a generated parser is one of a dozen C templates inside CodegenCtx. The "
    "emission-path enumerator lists every line sequence those templates can emit under every valuation of the "
    "generator's branch atoms (flags, storage kind, str_null, is_start, default present); typestate rules over the "
    "classified lines decide: C03.a the capacity test dominates the byte write, which sits in its else-arm, with the "
    "bound = usable size (declared size minus terminator) and the terminator written after the increment iff the "
    "string is terminated; C03.b the capacity arithmetic (linear-term evaluation of effective_string_size / "
    "_generate_buflike_length_expr); C03.c every constant copy (memcpy of a literal) is dominated by a refusal when "
    "the literal exceeds capacity, and the checked length, the memcpy length and the stored counter are the same "
    "measure of the literal; C03.d one byte encoding (latin-1) at every str->bytes conversion; C03.e on-demand "
    "pointer typestate: no dereference of a possibly-NULL heap string without a preceding null-guard/malloc, nothing "
    "after free; C03.f free immediately followed by NULL-ing, free() covers every heap string, every malloc has the "
    "full declared size; C03.g bounds-checked index template; C03.h byte view of raw outputs takes the address; "
    "C03.i counter/state integer widths hold their maximum. All for every program/option set, as facts of the generator.")
NOT_DECIDED = ("undefined behaviour inside user arithmetic (shift counts, signed overflow, division by zero: run-time values); "
               "leak freedom beyond 'free() covers every heap string'; reads of the input chunk beyond the pointer protocol of C10")
ENGINES = ["E1 source model", "E4 linear-term evaluator", "E5 emission-path enumerator", "E6 C-line events", "E7 flag table"]

ACT = "CodegenCtx._generate_action_implementation"
OUT = "action.into_storage"


def hole_src(s):
    s = s.strip()
    if s.startswith("[[") and s.endswith("]]") and s.count("[[") == 1:
        return s[2:-2]
    return None


def out_expr_of(namehole):
    """'[[action.into_storage.name]]' -> 'action.into_storage'"""
    h = hole_src(namehole)
    if h and h.endswith(".name"):
        return h[:-5]
    return None


def val(p, atom):
    return p.valuation().get(atom)


def pk(v):
    return ", ".join(f"{k}={'T' if b else 'F'}" for k, b in sorted(v.items()) if not k.startswith("is_") or k == "is_start")


def is_str_size(src):
    return src.endswith(".str_size")


LEN_RX = re.compile(r"len\(((?:[^()]|\([^()]*\))*)\)")


LATIN = ("latin-1", "latin1", "iso-8859-1", "l1")
_MODEL = [None]


def helper_codec(name):
    """Codec used by a CodegenCtx helper that turns a literal into bytes (`return value.encode(<codec>)` / `return value`)."""
    model = _MODEL[0]
    owner, fn = model.resolve_method("CodegenCtx", name)
    if fn is None:
        return None
    codecs = set()
    for c in calls_in(fn, nested=False):
        if isinstance(c.func, ast.Attribute) and c.func.attr == "encode":
            if c.args and isinstance(c.args[0], ast.Constant):
                codecs.add(str(c.args[0].value).lower().replace("_", "-"))
            else:
                codecs.add("utf-8")
    if len(codecs) == 1:
        return codecs.pop()
    return None


def measure_of(src):
    """-> (measure, subject, (a,b)) for an int expression containing one len(...) call."""
    m = LEN_RX.search(src)
    if not m:
        return None
    inner = m.group(1)
    enc = re.match(r"^(.*)\.encode\((['\"])([\w-]+)\2\)$", inner)
    hlp = re.match(r"^self\.(\w+)\((.*)\)$", inner)
    if enc:
        subject, codec = enc.group(1), enc.group(3).lower().replace("_", "-")
        measure = "chars" if codec in LATIN else codec
    elif hlp and helper_codec(hlp.group(1)) is not None:
        subject, codec = hlp.group(2), helper_codec(hlp.group(1))
        measure = "chars" if codec in LATIN else codec
    else:
        subject, measure = inner, "chars"
    lin = linear(src.replace(m.group(0), "LENSYM"), lambda s: s == "LENSYM")
    return measure, subject, lin


def run(ctx, rep, tier):
    model = ctx.model
    E = ctx.emit
    _MODEL[0] = model

    # ------------------------------------------------------------------ C03.b capacity arithmetic
    rep.rule("C03.b", "effective_string_size() = str_size - 1 when terminated else str_size; _generate_buflike_length_expr "
                      "returns that for include_null=True, the declared size otherwise, sizeof(member) for raw")
    fp = E.enumerate("OutputStorage.effective_string_size")
    seen = {}
    for p in fp.paths:
        if not p.end or p.end[0] != "return":
            raise AnalysisError("effective_string_size has a non-returning path")
        sn = p.atoms.get("self.str_null")
        v = p.end[1]
        src = v.src if isinstance(v, SSym) else (str(v.value) if isinstance(v, SConst) else None)
        lin = linear(src, lambda s: s == "self.str_size") if src else None
        want = (1, -1) if sn else (1, 0)
        seen[sn] = lin
        rep.check(sn is not None and lin == want, "C03.b", "OutputStorage.effective_string_size", f"str_null={sn}",
                  f"usable size is {src} (a*N+b = {lin}), expected {want} in the declared size N")
    if set(seen) != {True, False}:
        raise AnalysisError("effective_string_size no longer branches on str_null")
    for inc in (True, False):
        fp = E.enumerate("CodegenCtx._generate_buflike_length_expr", bind={"include_null": inc})
        for p in fp.paths:
            if not p.end or p.end[0] != "return":
                continue
            v = p.valuation()
            txt = p.end[1].text() if isinstance(p.end[1], SStr) else None
            if v.get("out_expr.type == OutputStorageType.RAW") is True:
                ok = txt == "sizeof(state->c.[[out_expr.name]])"
                want = "sizeof(member)"
            else:
                h = hole_src(txt or "")
                lin = linear(h, is_str_size) if h else None
                sn = v.get("out_expr.str_null")
                want = (1, -1) if (inc and sn) else (1, 0)
                ok = lin == want and (not inc or sn is not None)
            rep.check(ok, "C03.b", "CodegenCtx._generate_buflike_length_expr", f"include_null={inc} [{pk(v)}]",
                      f"length expression is {txt!r}, expected {want}")
    rep.floor("C03.b", 6)

    # ------------------------------------------------------------------ C03.a capacity guard dominates the byte write
    rep.rule("C03.a", "AppendTo / AppendCharTo: capacity test (== or >= usable size) precedes the byte write, the write is in its "
                      "else-arm at [counter++], the overflow arm only stores the handler state and leaves, the terminator follows iff terminated")
    for cl in ("AppendTo", "AppendCharTo"):
        fp = E.enumerate(ACT, classes={"action": cl})
        rep.count("emission_paths:action:" + cl, len(fp.paths))
        for p in fp.paths:
            if p.end and p.end[0] == "raise":
                continue
            v = p.valuation()
            key = f"{cl} [{pk(v)}]"
            evs = [e for e in events_of(fp.lines(p)) if e.kind != "COMMENT"]
            probs = check_append_path(evs, v)
            if probs:
                rep.bad("C03.a", ACT, key, "; ".join(probs), extra={"lines": [i.text() for i in fp.lines(p)]})
            else:
                rep.ok("C03.a", ACT, key)
    rep.floor("C03.a", 40)
    # ------------------------------------------------------------------ C03.o an on-demand buffer is allocated only when a byte is stored (F-116)
    rep.rule("C03.o", "append templates allocate an on-demand buffer inside the else-arm of the capacity test, never in front of it: on the overflow "
                      "path nothing is written, so a buffer allocated there would be handed to the client uninitialised (a terminated string "
                      "without room for a single byte overflows on its first append)")
    n_o = 0
    for cl in ("AppendTo", "AppendCharTo"):
        fp = E.enumerate(ACT, classes={"action": cl})
        for p in fp.paths:
            if p.end and p.end[0] == "raise":
                continue
            v = p.valuation()
            evs = [e for e in events_of(fp.lines(p)) if e.kind != "COMMENT"]
            mallocs = [i for i, e in enumerate(evs) if e.kind == "MALLOC"]
            if not mallocs:
                continue
            n_o += 1
            g = next((i for i, e in enumerate(evs) if e.kind == "GUARD_CAP"), None)
            els = next((i for i, e in enumerate(evs) if e.kind == "ELSE"), None)
            ok = g is not None and els is not None and all(i > els > g for i in mallocs)
            rep.check(ok, "C03.o", ACT, f"{cl} [{pk(v)}]",
                      "the buffer is allocated in front of the capacity test: when the append overflows (a terminated str[1] always does) the "
                      "fresh buffer is left unwritten and unterminated", extra={"lines": [i.text() for i in fp.lines(p)]})
    if n_o < 8:
        raise AnalysisError(f"C03.o: only {n_o} allocating append paths (floor 8)")
    # any other template that writes [counter++] must be one of the two classes above
    for cl in model.concrete_subclasses("Action"):
        if cl in ("AppendTo", "AppendCharTo", "Action"):
            continue
        fp = E.enumerate(ACT, classes={"action": cl})
        for p in fp.paths:
            for e in events_of(fp.lines(p)):
                if e.kind == "WRITE" and e.b == "counter++":
                    rep.bad("C03.a", ACT, f"{cl}: unguarded append write", "a byte append outside the guarded append templates: " + e.text.strip())

    # ------------------------------------------------------------------ C03.c / C03.d constant copies
    rep.rule("C03.c", "every memcpy of a literal into an output is dominated by a refusal `len(literal) > usable size -> raise NMFUError`, "
                      "and checked length, memcpy length and stored counter are the same measure of the literal")
    sites = 0
    # (i) SetToStr template
    fp = E.enumerate(ACT, classes={"action": "SetToStr"})
    rep.count("emission_paths:action:SetToStr", len(fp.paths))
    for p in fp.paths:
        if p.end and p.end[0] == "raise":
            continue
        v = p.valuation()
        evs = [e for e in events_of(fp.lines(p)) if e.kind != "COMMENT"]
        sites += check_memcpy_site(rep, ACT, "SetToStr", evs, v, p, model)
    # (ii) defaults in start()
    fn = "CodegenCtx._generate_start_implementation"
    fp = E.enumerate(fn)
    rep.count("emission_paths:_generate_start_implementation", len(fp.paths))
    seen_bodies = set()
    for p in fp.paths:
        for it in fp.lines(p):
            if isinstance(it, LoopBlock):
                for delta, sub, endk, end in it.bodies:
                    if endk == "raise":
                        continue
                    v = dict(p.valuation())
                    v.update(delta)
                    evs = [e for e in events_of(sub) if e.kind != "COMMENT"]
                    if not any(e.kind == "MEMCPY" for e in evs):
                        continue
                    k = (tuple(i.text() for i in sub), tuple(sorted(v.items())))
                    if k in seen_bodies:
                        continue
                    seen_bodies.add(k)
                    sites += check_memcpy_site(rep, fn, "default", evs, v, None, model)
    if sites < 8:
        raise AnalysisError(f"C03.c: only {sites} memcpy template instances found (floor 8)")
    # every caller of _generate_set_string is one of the two analysed generators
    callers = set()
    for q, f in model.functions.items():
        for c in calls_in(f, nested=False):
            if isinstance(c.func, ast.Attribute) and c.func.attr == "_generate_set_string":
                callers.add(q)
    for q in sorted(callers):
        rep.check(q in (ACT, fn), "C03.c", q, "calls _generate_set_string",
                  "a new caller of _generate_set_string is not covered by the capacity-refusal analysis")
    if not callers:
        raise AnalysisError("anchor lost: no caller of _generate_set_string")

    rep.rule("C03.d", "every str->bytes conversion on the way to emitted C uses latin-1 (literals are strings of byte-valued code points)")
    n_enc = 0
    for q, f in model.functions.items():
        if "." in q and q.split(".")[0] in ("CodegenCtx", "ParseCtx"):
            for c in calls_in(f, nested=False):
                if isinstance(c.func, ast.Attribute) and c.func.attr == "encode":
                    n_enc += 1
                    codec = None
                    if c.args and isinstance(c.args[0], ast.Constant):
                        codec = str(c.args[0].value).lower().replace("_", "-")
                    elif not c.args:
                        codec = "utf-8"
                    ok = codec in ("latin-1", "latin1", "iso-8859-1")
                    rep.check(ok, "C03.d", q, f"{ast.unparse(c)}",
                              f"literal bytes are produced with codec {codec!r}: any byte >= 0x80 is stored as two bytes (wrong bytes, "
                              "and more bytes than the length check counted)", line=c.lineno)
    if n_enc < 2:
        raise AnalysisError(f"C03.d: found {n_enc} .encode() sites (floor 2)")

    # ------------------------------------------------------------------ C03.e on-demand pointer typestate
    rep.rule("C03.e", "under ALLOCATE_STR_SPACE_DYNAMIC_ON_DEMAND a heap string may be NULL (never allocated, or freed by delete): every "
                      "dereference in a template is preceded on its path by a null-guard or malloc; nothing is dereferenced after free")
    n_e = 0
    for cl in ("SetToStr", "DeleteBuf", "AppendTo", "AppendCharTo"):
        fp = E.enumerate(ACT, classes={"action": cl})
        done = set()
        for p in fp.paths:
            if p.end and p.end[0] == "raise":
                continue
            v = p.valuation()
            if not maybe_null(ctx, v):
                continue
            evs = [e for e in events_of(fp.lines(p)) if e.kind != "COMMENT"]
            res = typestate(evs)
            core = null_core(v)
            for kind, text in res:
                key = f"{cl}: {kind} [{core}]"
                if key in done:
                    continue
                done.add(key)
                n_e += 1
                rep.bad("C03.e", ACT, key, f"{text.strip()!r} can execute with state->c.<out> == NULL "
                        "(on-demand allocation: never allocated, or freed by a previous delete)" if kind == "deref-null"
                        else f"{text.strip()!r} after free()", extra={"lines": [i.text() for i in fp.lines(p)]})
            if not res:
                n_e += 1
                rep.ok("C03.e", ACT, f"{cl} [{pk(v)}]")
    # index read inside expressions
    fp = E.enumerate("CodegenCtx._generate_code_for_int_expr", classes={"intexpr": "StringRefIntegerExpr"})
    for p in fp.paths:
        if not p.end or p.end[0] != "return" or not isinstance(p.end[1], SStr):
            continue
        txt = p.end[1].text()
        v = p.valuation()
        if v.get("intexpr.ref.type == OutputStorageType.RAW") is True or v.get("intexpr.ref.type == OutputStorageType.STR") is False:
            continue
        v2 = {k: b for k, b in v.items() if k.startswith("F:")}
        v2[f"{OUT}.type == OutputStorageType.STR"] = True
        if not maybe_null(ctx, v2):
            continue   # no template can have left the pointer NULL under these flags
        if v.get("F:UNSAFE_STRING_INDEXING") is True:
            continue   # unsafe indexing is only defined for in-range indices of an existing buffer (property quantifier)
        guarded = re.search(r"state->c\.\[\[intexpr\.ref\.name\]\]\s*(!= NULL|&&)|\(state->c\.\[\[intexpr\.ref\.name\]\]\)\s*&&|!state->c\.", txt) is not None
        n_e += 1
        rep.check(guarded, "C03.e", "CodegenCtx._generate_code_for_int_expr", "bounds-checked index read of a possibly unallocated string",
                  f"indexed read {txt!r} dereferences the string pointer with no NULL test; under on-demand allocation it is NULL until "
                  "the first append and after a freeing delete")
    if n_e < 10:
        raise AnalysisError(f"C03.e: only {n_e} instances (floor 10)")

    # ------------------------------------------------------------------ C03.f free discipline
    rep.rule("C03.f", "free(x) is immediately followed by x = NULL; free() iterates all STR outputs under ALLOCATE_STR_SPACE_DYNAMIC; every malloc "
                      "has the full declared size; start() allocates or NULLs every heap string")
    n_free = n_malloc = 0
    streams = []
    for cl in model.concrete_subclasses("Action"):
        if cl == "Action":
            continue
        fp = E.enumerate(ACT, classes={"action": cl})
        for p in fp.paths:
            streams.append((ACT + ":" + cl, [e for e in events_of(list(_flat_lines(fp.lines(p))))]))
    for q in ("CodegenCtx._generate_free_implementation", "CodegenCtx._generate_start_implementation"):
        fp = E.enumerate(q)
        for p in fp.paths:
            for it in fp.lines(p):
                if isinstance(it, LoopBlock):
                    for delta, sub, endk, end in it.bodies:
                        streams.append((q, events_of(sub)))
            streams.append((q, events_of([i for i in fp.lines(p) if isinstance(i, Line)])))
    seen_f, seen_m = set(), set()
    for q, evs in streams:
        evs = [e for e in evs if e.kind != "COMMENT"]
        for i, e in enumerate(evs):
            if e.kind == "FREE":
                ok = i + 1 < len(evs) and evs[i + 1].kind == "NULLIFY" and evs[i + 1].a == e.a
                if (q, e.text, ok) not in seen_f:
                    seen_f.add((q, e.text, ok))
                    n_free += 1
                    rep.check(ok, "C03.f", q, "free then NULL: " + e.text.strip(), "free() is not immediately followed by NULL-ing the pointer "
                              "(double free in the free function / use after free)")
            if e.kind == "MALLOC":
                h = hole_src(e.b)
                lin = linear(h, is_str_size) if h else None
                if (q, e.text) not in seen_m:
                    seen_m.add((q, e.text))
                    n_malloc += 1
                    rep.check(lin == (1, 0), "C03.f", q, "malloc size: " + e.text.strip(),
                              f"malloc size {e.b} is not the full declared size of the string")
    if n_free < 2 or n_malloc < 4:
        raise AnalysisError(f"C03.f: {n_free} free / {n_malloc} malloc template sites (floors 2 / 4)")
    check_alloc_only_heap(rep, model, E, "C03.f")
    # free() covers all heap strings
    fp = E.enumerate("CodegenCtx._generate_free_implementation")
    ok_cov = False
    for p in fp.paths:
        if p.atoms.get("F:ALLOCATE_STR_SPACE_DYNAMIC") is True:
            for it in fp.lines(p):
                if isinstance(it, LoopBlock) and "self.state_object_spec" in it.iter_src:
                    for delta, sub, endk, end in it.bodies:
                        evs = events_of(sub)
                        has_free = any(e.kind == "FREE" for e in evs)
                        conds = {k: b for k, b in delta.items() if b}
                        if has_free and conds == {"out_expr.type == OutputStorageType.STR": True}:
                            ok_cov = True
                        elif has_free:
                            rep.bad("C03.f", "CodegenCtx._generate_free_implementation", f"free under {conds}",
                                    "free() frees under a narrower/different condition than 'is a STR output': some heap string leaks")
    rep.check(ok_cov, "C03.f", "CodegenCtx._generate_free_implementation", "covers every STR output under DYNAMIC",
              "free() does not free every STR output when strings are heap allocated")
    isd = model.func("CodegenCtx._is_dynamic")
    body = strip_doc(isd.body)
    src = ast.unparse(body[0].value) if len(body) == 1 and isinstance(body[0], ast.Return) else ""
    rep.check("OutputStorageType.STR" in src and "ALLOCATE_STR_SPACE_DYNAMIC)" in src and " and " in src, "C03.f", "CodegenCtx._is_dynamic",
              "heap predicate = STR and ALLOCATE_STR_SPACE_DYNAMIC", f"_is_dynamic is now {src!r}: free()/declaration/malloc predicates may diverge")
    # start(): every heap string is allocated or NULLed
    fp = E.enumerate("CodegenCtx._generate_start_implementation")
    for p in fp.paths:
        if p.atoms.get("F:ALLOCATE_STR_SPACE_DYNAMIC") is not True:
            continue
        loops = [it for it in fp.lines(p) if isinstance(it, LoopBlock) and "self.state_object_spec" in it.iter_src]
        if len(loops) not in (2, 3):      # defaults, heap init[, initial terminator - its absence is C03.n's business]
            raise AnalysisError("start(): expected the loops defaults / heap init / initial terminator over the outputs under DYNAMIC")
        # loop 1: defaults of heap strings malloc before memcpy
        for delta, sub, endk, end in loops[0].bodies:
            evs = [e for e in events_of(sub) if e.kind != "COMMENT"]
            ks = [e.kind for e in evs]
            if "MEMCPY" in ks:
                dyn = delta.get("F:ALLOCATE_STR_SPACE_DYNAMIC", p.atoms.get("F:ALLOCATE_STR_SPACE_DYNAMIC"))
                if dyn:
                    rep.check("MALLOC" in ks and ks.index("MALLOC") < ks.index("MEMCPY"), "C03.f",
                              "CodegenCtx._generate_start_implementation", "default copied into freshly allocated heap string",
                              "default value is copied before / without allocating the heap string")
        # the two loops must partition the heap strings on the *same* atom: default present (loop 1) / default absent (loop 2)
        for delta, sub, endk, end in loops[1].bodies:
            dflt = {k: b for k, b in delta.items() if "default_value" in k}
            evs2 = [e for e in events_of(sub) if e.kind in ("NULLIFY", "MALLOC")]
            if evs2:
                rep.check(dflt == {"out_expr.default_value is None": True}, "C03.f", "CodegenCtx._generate_start_implementation", "heap-init loop handles exactly the outputs without default",
                          f"the second loop of start() initialises a heap string under {dflt}, not under `default_value is None`: an output with an empty default is allocated twice "
                          "(leak) or reset to NULL after its default was copied")
            elif endk == "continue" and dflt:
                rep.check(set(dflt) <= {"out_expr.default_value is None"}, "C03.f", "CodegenCtx._generate_start_implementation", "heap-init loop skips exactly the outputs with a default",
                          f"the second loop of start() skips outputs under {dflt}: the split between 'default copied' and 'allocate / NULL' is no longer on `default_value is None`")
        init_kinds = set()
        for delta, sub, endk, end in loops[1].bodies:
            evs = [e for e in events_of(sub) if e.kind != "COMMENT"]
            for e in evs:
                if e.kind in ("NULLIFY", "MALLOC"):
                    init_kinds.add((e.kind, delta.get("F:ALLOCATE_STR_SPACE_DYNAMIC_ON_DEMAND")))
        want = {("NULLIFY", True), ("MALLOC", False)}
        rep.check(init_kinds == want, "C03.f", "CodegenCtx._generate_start_implementation", "heap strings without default: NULL (on demand) or malloc",
                  f"start() initialises default-less heap strings as {sorted(map(str, init_kinds))}, expected NULL under on-demand and malloc otherwise")

    # ------------------------------------------------------------------ C03.g bounds-checked index template
    rep.rule("C03.g", "unless UNSAFE_STRING_INDEXING, an index read is `0 <= i < bound ? read : 0` with the same index in test and read; bound = declared size (raw: sizeof) or the string's length counter")
    fp = E.enumerate("CodegenCtx._generate_code_for_int_expr", classes={"intexpr": "StringRefIntegerExpr"})
    n_g = 0
    for p in fp.paths:
        if not p.end or p.end[0] != "return" or not isinstance(p.end[1], SStr):
            continue
        txt = p.end[1].text()
        v = p.valuation()
        unsafe = v.get("F:UNSAFE_STRING_INDEXING")
        if unsafe is None:
            raise AnalysisError("C03.g: index template no longer consults UNSAFE_STRING_INDEXING")
        n_g += 1
        if unsafe:
            rep.ok("C03.g", "CodegenCtx._generate_code_for_int_expr", f"unsafe indexing selected [{pk(v)}]", nontrivial=False)
            continue
        I = r"\[\[CALL:_generate_code_for_int_expr\(intexpr\.index, ctx\)\]\]"
        m = re.match(r"^\(\(\((" + I + r")\) >= 0 && \((" + I + r")\) < (.+?)\) \? (?:.*&& )?(.+) : 0\)$", txt) or \
            re.match(r"^\(\((?:.+ && )?\((" + I + r")\) >= 0 && \((" + I + r")\) < (.+?)\) \? (.+) : 0\)$", txt)
        ok = False
        why = "template shape not `((i) >= 0 && (i) < SIZE) ? read : 0`"
        if m:
            size, read = m.group(3), m.group(4)
            raw = v.get("intexpr.ref.type == OutputStorageType.RAW") is True
            if raw:
                size_ok = size == "sizeof(state->c.[[intexpr.ref.name]])"
            else:
                h = hole_src(size)
                # memory-safe bounds: the declared size, or the length counter of the same string (kept <= usable size by C03.a/b)
                size_ok = (h is not None and linear(h, is_str_size) == (1, 0)) or size == "(long)state->[[intexpr.ref.name]]_counter"
            read_ok = read.endswith("[" + m.group(1) + "]") and "state->c.[[intexpr.ref.name]]" in read
            ok = size_ok and read_ok
            why = f"size bound {size!r} ok={size_ok}, read {read!r} ok={read_ok}"
        rep.check(ok, "C03.g", "CodegenCtx._generate_code_for_int_expr", f"bounds-checked index [{pk(v)}]", why, detail=txt)
    if n_g < 4:
        raise AnalysisError("C03.g: fewer than 4 index template paths")

    # ------------------------------------------------------------------ C03.h raw byte view takes the address
    rep.rule("C03.h", "a raw output is declared as a scalar of the user's type: its byte view must be ((uint8_t *)&state->c.x)[i]")
    fp = E.enumerate("CodegenCtx._generate_buflike_index_expr")
    n_h = 0
    for p in fp.paths:
        if not p.end or p.end[0] != "return" or not isinstance(p.end[1], SStr):
            continue
        txt = p.end[1].text()
        v = p.valuation()
        raw = v.get("out_expr.type == OutputStorageType.RAW")
        n_h += 1
        if raw:
            ok = re.match(r"^\(\(uint8_t \*\)\s*\(?&\s*\(?state->c\.\[\[out_expr\.name\]\]\)?\)?\)\[\[\[index_expr\]\]\]$", txt) is not None
            rep.check(ok, "C03.h", "CodegenCtx._generate_buflike_index_expr", "raw byte view",
                      f"raw output viewed as {txt!r}: the member's *value* is cast to a pointer (does not compile for most types; a wild pointer for "
                      "integer types) - the address must be taken")
        else:
            rep.check(txt == "state->c.[[out_expr.name]][[[index_expr]]]", "C03.h", "CodegenCtx._generate_buflike_index_expr", "string element",
                      f"string element expression is {txt!r}")
    # declaration kinds
    fp = E.enumerate("CodegenCtx._get_state_object_out_declaration")
    for p in fp.paths:
        if not p.end or p.end[0] != "return" or not isinstance(p.end[1], SStr):
            continue
        txt = p.end[1].text()
        v = p.valuation()
        if v.get("out_decl.type == OutputStorageType.RAW"):
            n_h += 1
            rep.check(txt == "[[out_decl.raw_underlying]] [[out_decl.name]]", "C03.h", "CodegenCtx._get_state_object_out_declaration", "raw declared as scalar",
                      f"raw declaration is {txt!r}")
        if v.get("out_decl.type == OutputStorageType.STR"):
            n_h += 1
            dyn = v.get("F:ALLOCATE_STR_SPACE_DYNAMIC")
            if dyn:
                ok = re.match(r"^(char|uint8_t) \* \[\[out_decl\.name\]\]$", txt) is not None
            else:
                ok = re.match(r"^(char|uint8_t) \[\[out_decl\.name\]\]\[\[\[out_decl\.str_size\]\]\]$", txt) is not None
            rep.check(ok, "C03.h", "CodegenCtx._get_state_object_out_declaration", f"string declared [{pk(v)}]",
                      f"string declaration {txt!r} does not match storage mode (array of the full declared size in-struct, pointer on the heap)")
    if n_h < 5:
        raise AnalysisError("C03.h: fewer than 5 declaration/use instances")

    # ------------------------------------------------------------------ C03.i counter and state widths
    rep.rule("C03.i", "_integer_containing's threshold chain only picks a type that holds maxval; counters are sized from the declared size, "
                      "the state variable from the number of states")
    check_integer_containing(rep, model)
    sod = model.func("CodegenCtx._generate_state_object_decl")
    n_i = 0
    for c in calls_in(sod, nested=False):
        if isinstance(c.func, ast.Attribute) and c.func.attr == "_integer_containing" and c.args:
            a = ast.unparse(c.args[0])
            signed_false = any(k.arg == "signed" and isinstance(k.value, ast.Constant) and k.value.value is False for k in c.keywords)
            if "str_size" in a:
                n_i += 1
                lin = linear(c.args[0], is_str_size)
                rep.check(lin is not None and lin[0] == 1 and lin[1] >= 0 and signed_false, "C03.i", "CodegenCtx._generate_state_object_decl",
                          "string counter sized from str_size", f"counter type chosen for maxval {a} (a*N+b={lin}): an unterminated string of "
                          "declared size N holds N bytes, so the counter must hold N", line=c.lineno)
            elif "len(self.dfa.states)" in a:
                n_i += 1
                lin = linear(c.args[0], lambda s: s == "len(self.dfa.states)")
                rep.check(lin is not None and lin[0] == 1 and lin[1] >= -1 and signed_false, "C03.i", "CodegenCtx._generate_state_object_decl",
                          "state variable sized from len(states)", f"state type chosen for maxval {a}", line=c.lineno)
            elif "_get_maxval_hint_for_raw_type" in a:
                n_i += 1
                rep.ok("C03.i", "CodegenCtx._generate_state_object_decl", "raw counter sized from the type-size table")
    if n_i < 3:
        raise AnalysisError("C03.i: counter/state sizing call sites not found")
    # raw size table must not under-estimate
    tbl = None
    for n in walk_no_nested(model.func("CodegenCtx._get_maxval_hint_for_raw_type")):
        if isinstance(n, ast.Dict):
            tbl = n
    if tbl is None:
        raise AnalysisError("anchor lost: raw type size table")
    true_sizes = {"int8_t": 1, "uint8_t": 1, "int16_t": 2, "uint16_t": 2, "int32_t": 4, "uint32_t": 4, "int64_t": 8, "uint64_t": 8, "float": 4, "double": 8}
    for k, vnode in zip(tbl.keys, tbl.values):
        name, size = ast.literal_eval(k), ast.literal_eval(vnode)
        if name in true_sizes:
            rep.check(size >= true_sizes[name], "C03.i", "CodegenCtx._get_maxval_hint_for_raw_type", f"sizeof({name})",
                      f"size hint {size} for {name} is smaller than its size {true_sizes[name]}: the byte counter cannot reach the end of the object")


def _flat_lines(items):
    for it in items:
        if isinstance(it, LoopBlock):
            continue
        yield it


def check_append_path(evs, v):
    probs = []
    guards = [i for i, e in enumerate(evs) if e.kind == "GUARD_CAP"]
    writes = [i for i, e in enumerate(evs) if e.kind == "WRITE"]
    if len(guards) != 1:
        return [f"{len(guards)} capacity tests emitted (expected exactly 1)"]
    g = guards[0]
    ge = evs[g]
    if out_expr_of(ge.a) != OUT:
        probs.append(f"capacity test reads the counter of {ge.a}, not the appended output")
    if ge.c not in ("==", ">="):
        probs.append(f"capacity test uses operator {ge.c!r}: the write happens when counter == usable size")
    is_raw = v.get(f"{OUT}.type == OutputStorageType.RAW") is True
    is_str = v.get(f"{OUT}.type == OutputStorageType.STR") is True
    sn = v.get(f"{OUT}.str_null")
    if is_raw:
        if ge.b != f"sizeof(state->c.[[{OUT}.name]])":
            probs.append(f"raw capacity bound is {ge.b}")
    elif is_str:
        h = hole_src(ge.b)
        lin = linear(h, is_str_size) if h else None
        want = (1, -1) if sn else (1, 0)
        if sn is None:
            probs.append("capacity bound does not depend on whether the string is terminated")
        elif lin != want:
            probs.append(f"capacity bound {ge.b} is a*N+b={lin}, expected {want} (N = declared size, terminator {'reserved' if sn else 'absent'})")
    else:
        probs.append("storage kind (STR/RAW) not determined on this path")
    # overflow arm: g+1 .. first CLOSE
    try:
        c1 = next(i for i in range(g + 1, len(evs)) if evs[i].kind == "CLOSE")
    except StopIteration:
        return probs + ["overflow arm not closed"]
    arm = evs[g + 1:c1]
    kinds = [e.kind for e in arm]
    if any(e.kind == "WRITE" for e in arm):
        probs.append("a write is performed in the overflow arm")
    if not arm or arm[0].kind != "SETSTATE" or arm[0].a != "action.end_target":
        probs.append("overflow arm does not store the out-of-space handler state (action.end_target)")
    tn = v.get("transition is None")
    if tn is True:
        if kinds[-1:] != ["RET"] or arm[-1].a != "OK":
            probs.append("start-time overflow must return OK after storing the handler state")
    elif tn is False:
        if kinds[-1:] != ["GOTO"] or arm[-1].a != "repeatswitch":
            probs.append("overflow must re-dispatch through `goto repeatswitch` (handler state already stored)")
    else:
        probs.append("overflow arm does not distinguish start-time from feed-time")
    if c1 + 1 >= len(evs) or evs[c1 + 1].kind != "ELSE":
        probs.append("byte write is not in the else-arm of the capacity test")
        return probs
    tail = evs[c1 + 2:]
    if not tail or tail[-1].kind != "CLOSE":
        probs.append("else-arm not closed")
    body = [e for e in tail[:-1]]
    ws = [e for e in body if e.kind == "WRITE"]
    if any(i < c1 for i in writes):
        probs.append("a byte is written before the capacity test")
    if not ws or ws[0].b != "counter++" or out_expr_of(ws[0].a) != OUT:
        probs.append("else-arm does not append at [counter++] of the output")
    cnts = [e for e in body if e.kind == "COUNTER_OF"]
    if any(out_expr_of(c.a) != OUT for c in cnts):
        probs.append("append uses another output's counter")
    terms = [e for e in ws[1:] if e.b == "counter" and e.c == "0"]
    want_term = bool(is_str and sn)
    if want_term and (len(ws) != 2 or len(terms) != 1):
        probs.append("terminated string: NUL terminator must be written at [counter] right after the increment")
    if not want_term and len(ws) != 1:
        probs.append("unterminated/raw output: exactly one write expected")
    # an on-demand allocation (null test + malloc) may open the else-arm: it has to precede the first write (C03.e decides that it does
    # whenever the pointer may be NULL; C03.o that it stands here and not in front of the capacity test)
    first_w = next((i for i, e in enumerate(body) if e.kind == "WRITE"), len(body))
    if any(e.kind in ("NULLGUARD", "MALLOC") for e in body[first_w:]):
        probs.append("the on-demand allocation stands behind the byte write")
    if any(e.kind not in ("WRITE", "COUNTER_OF", "RAWVIEW", "APPEND_SPLIT") for e in body[first_w:]) or \
            any(e.kind not in ("NULLGUARD", "MALLOC", "RAWVIEW") for e in body[:first_w]):
        probs.append(f"unexpected statements in the append arm: {[e.kind for e in body]}")
    # two-statement append (store at the current length, then count): the count must precede the terminator, which is written at the NEW length
    split = [i for i, e in enumerate(body) if e.kind == "APPEND_SPLIT"]
    if split and terms and body.index(terms[0]) < split[0]:
        probs.append("the terminator is written before the length is counted: it lands on the byte just appended")
    if len(split) > 1 or (split and out_expr_of(body[split[0]].a) != OUT):
        probs.append("the length of the output is counted more than once / another output's length is counted")
    # nothing but an optional on-demand allocation precedes the guard
    pre = evs[:g]
    if any(e.kind not in ("NULLGUARD", "MALLOC") for e in pre):
        probs.append(f"unexpected statements before the capacity test: {[e.kind for e in pre]}")
    return probs


def check_memcpy_site(rep, fn, what, evs, v, path, model):
    n = 0
    for i, e in enumerate(evs):
        if e.kind != "MEMCPY":
            continue
        n += 1
        out = out_expr_of(e.a)
        lit = hole_src(e.b)
        m = re.match(r"^self\._escape_string\((.*)\)$", lit or "")
        core = ", ".join(f"{k.split('.')[-1] if not k.startswith('isinstance') else 'is_str'}={'T' if v[k] else 'F'}" for k in sorted(v)
                         if k.endswith(".str_null") or k.startswith("isinstance("))
        key = f"{what}: memcpy into {out} [{core}]"
        if not out or not m:
            rep.bad("C03.c", fn, key, f"memcpy destination/source not recognised: {e.text.strip()}")
            continue
        V = m.group(1)
        # (1) dominated by a refusal
        refusal = None
        for a, b in v.items():
            mm = re.match(r"^len\((.+)\) (>|>=) (.+)\.effective_string_size\(\)$", a)
            if mm and mm.group(1) == V and mm.group(3) == out and b is False:
                refusal = (a, mm.group(2))
        ok1 = refusal is not None and refusal[1] == ">"
        rep.check(ok1, "C03.c", fn, key + " :refusal",
                  f"the literal {V} is copied into {out} with no dominating refusal `len({V}) > {out}.effective_string_size() -> raise`: "
                  "a constant longer than the output overflows it at run time")
        if refusal is not None and path is not None:
            # the true-arm of the refusal must raise an NMFUError subclass: checked on sibling paths by the caller's enumeration
            pass
        # (2) same measure
        h = hole_src(e.c)
        ms = measure_of(h) if h else None
        sn = v.get(f"{out}.str_null")
        isstr = v.get(f"isinstance({V}, str)")
        want = (1, 1) if sn else (1, 0)
        if ms is None:
            rep.bad("C03.c", fn, key + " :length", f"memcpy length {e.c} is not a length of the literal")
        else:
            measure, subj, lin = ms
            okm = subj == V and lin == want and (measure == "chars" or isstr is False)
            rep.check(okm, "C03.c", fn, key + " :length",
                      f"memcpy length {e.c} measures {measure} of {subj} (a*L+b={lin}); the capacity check and the stored counter measure "
                      f"characters of {V}; expected {want} in characters - with bytes >= 0x80 more bytes are copied than were checked")
        cnt = [x for x in evs if x.kind == "SETCOUNTER" and out_expr_of(x.a) == out]
        hc = hole_src(cnt[-1].b) if cnt else None
        mc = measure_of(hc) if hc else None
        okc = mc is not None and mc[0] == "chars" and mc[1] == V and mc[2] == (1, 0)
        rep.check(okc, "C03.c", fn, key + " :counter", f"length counter after the copy is {cnt[-1].b if cnt else None}, expected len({V})")
    return n


def null_producers(ctx):
    """Where a heap string's pointer can become NULL, read off the templates themselves (not a frozen formula over flags):
    (never-allocated) loop rounds of start() that store NULL into a string member; (freed) paths of any action template that free / nullify it.
    Each as the valuation (flag atoms, `default_value is None`, is_start) under which the template does so."""
    cached = getattr(ctx, "_null_producers", None)
    if cached is not None:
        return cached
    from ..emit import LoopBlock
    E = ctx.emit
    never, freed = [], []
    fp = E.enumerate("CodegenCtx._generate_start_implementation")
    for p in fp.paths:
        pv = {k: b for k, b in p.valuation().items() if k.startswith("F:")}
        for it in fp.lines(p):
            if not isinstance(it, LoopBlock):
                continue
            for body in it.bodies:
                evs = [e.kind for e in events_of(body[1])]
                if "NULLIFY" in evs and "MALLOC" not in evs:
                    w = dict(pv)
                    for k, b in body[0].items():
                        if k.startswith("F:"):
                            w[k] = b
                        elif k.endswith(".default_value is None"):
                            w["default_value is None"] = b
                    if w not in never:
                        never.append(w)
    for cl in ctx.model.concrete_subclasses("Action"):
        if cl == "Action":
            continue
        fpa = E.enumerate(ACT, classes={"action": cl})
        for p in fpa.paths:
            if p.end and p.end[0] == "raise":
                continue
            evs = [e.kind for e in events_of(fpa.lines(p))]
            if "FREE" in evs or "NULLIFY" in evs:
                w = {k: b for k, b in p.valuation().items() if k.startswith("F:") or k == "is_start"}
                if w not in freed:
                    freed.append(w)
    if not never and not freed:
        raise AnalysisError("C03.e: no template leaves a string pointer NULL any more (start() / delete): the typestate rule has lost its producers")
    ctx._null_producers = (never, freed)
    return ctx._null_producers


def _flags_feasible(ctx, atoms):
    """No flag that is on implies one that is off (flag table closure)."""
    ft = ctx.flags
    on = {k[2:] for k, b in atoms.items() if k.startswith("F:") and b is True}
    off = {k[2:] for k, b in atoms.items() if k.startswith("F:") and b is False}
    for f in on:
        try:
            if set(ft.implied_closure(f)) & off:
                return False
        except Exception:
            pass
    return True


def maybe_null(ctx, v):
    """Can `state->c.<out>` be NULL when this template path runs? Yes iff the output is a heap string and some producer's valuation is compatible
    with the path's (same truth value on shared flag atoms, feasible under the flag table)."""
    if v.get(f"{OUT}.type == OutputStorageType.STR") is False or v.get(f"{OUT}.type == OutputStorageType.RAW") is True:
        return False
    if v.get("F:ALLOCATE_STR_SPACE_DYNAMIC") is False:
        return False        # in-struct arrays are never pointers (declaration template, C03.h / C11.h)
    never, freed = null_producers(ctx)
    vf = {k: b for k, b in v.items() if k.startswith("F:")}

    def compatible(w):
        for k, b in w.items():
            if k.startswith("F:") and k in vf and vf[k] != b:
                return False
        merged = dict(vf)
        merged.update({k: b for k, b in w.items() if k.startswith("F:")})
        merged.setdefault("F:ALLOCATE_STR_SPACE_DYNAMIC", True)
        return _flags_feasible(ctx, merged)
    for w in never:
        dn = w.get("default_value is None")
        if dn is not None and v.get(f"{OUT}.default_value is None") is (not dn):
            continue
        if compatible(w):
            return True
    if v.get("is_start") is not True:       # nothing has been freed yet when start() runs its actions
        for w in freed:
            if compatible(w):
                return True
    return False


def maybe_null_sat(v):
    """(superseded by maybe_null: kept for the null_core key) Is 'state->c.<out> may be NULL at template entry' satisfiable under this valuation?"""
    if v.get("F:ALLOCATE_STR_SPACE_DYNAMIC_ON_DEMAND") is False:
        return False
    if v.get("F:ALLOCATE_STR_SPACE_DYNAMIC") is False:
        return False   # ON_DEMAND implies DYNAMIC (flag table closure, checked in C19/C11.c)
    if v.get(f"{OUT}.type == OutputStorageType.STR") is False or v.get(f"{OUT}.type == OutputStorageType.RAW") is True:
        return False
    never_alloc = v.get(f"{OUT}.default_value is None") is not False
    freed = v.get("F:DELETE_STRING_FREE_MEMORY") is not False and v.get("is_start") is not True
    return never_alloc or freed


def null_core(v):
    keys = ("F:ALLOCATE_STR_SPACE_DYNAMIC_ON_DEMAND", "F:DELETE_STRING_FREE_MEMORY", f"{OUT}.default_value is None", "is_start", f"{OUT}.str_null")
    return ", ".join(f"{k.replace(OUT + '.', '').replace('F:', '')}={'T' if v[k] else 'F'}" for k in keys if k in v)


def typestate(evs):
    """Walk events with state {maybe-null, allocated, freed}; return list of (kind, text) problems."""
    out = []
    allocated = False
    freed = False
    for e in evs:
        if e.kind in ("NULLGUARD", "MALLOC"):
            allocated = True
            freed = False
        elif e.kind == "FREE":
            freed = True
            allocated = False
        elif e.kind in ("WRITE", "MEMCPY"):
            if freed:
                out.append(("use-after-free", e.text))
            elif not allocated:
                out.append(("deref-null", e.text))
        elif e.kind == "IF" and re.match(r"^state->c\.\S+$", e.a or ""):
            allocated = True    # `if (state->c.x) {` guard form
    return out


def check_integer_containing(rep, model):
    fn = model.func("CodegenCtx._integer_containing")
    bits = {"int8_t": 7, "int16_t": 15, "int32_t": 31, "intmax_t": 63, "uint8_t": 8, "uint16_t": 16, "uint32_t": 32, "uintmax_t": 64}
    n = 0

    def chain(ifnode, signed):
        nonlocal n
        cur = ifnode
        prev_t = -1
        while True:
            test = cur.test
            ret = cur.body[0] if cur.body and isinstance(cur.body[0], ast.Return) else None
            tname = ret.value.value if ret is not None and isinstance(ret.value, ast.Constant) else None
            if isinstance(test, ast.Compare) and isinstance(test.ops[0], ast.Is):
                pass  # maxval is None -> default type
            elif isinstance(test, ast.Compare) and isinstance(test.ops[0], (ast.Lt, ast.LtE)) and ast.unparse(test.left) == "maxval":
                T = const_int(test.comparators[0])
                if T is None or tname not in bits:
                    raise AnalysisError("_integer_containing: threshold or type not constant")
                limit = (1 << bits[tname])          # values 0..limit-1 fit
                top = T - 1 if isinstance(test.ops[0], ast.Lt) else T
                n += 1
                rep.check(top <= limit - 1 and T > prev_t, "C03.i", "CodegenCtx._integer_containing", f"{'signed' if signed else 'unsigned'}: maxval < {T} -> {tname}",
                          f"values up to {top} do not fit {tname} (max {limit - 1}) or thresholds not increasing")
                prev_t = T
            else:
                raise AnalysisError(f"_integer_containing: unknown test {ast.unparse(test)}")
            if len(cur.orelse) == 1 and isinstance(cur.orelse[0], ast.If):
                cur = cur.orelse[0]
                continue
            break

    found = 0
    for st in fn.body:
        if isinstance(st, ast.If) and ast.unparse(st.test) == "signed":
            found += 1
            for sub, sg in ((st.body, True), (st.orelse, False)):
                ifs = [s for s in sub if isinstance(s, ast.If)]
                if len(ifs) != 1:
                    raise AnalysisError("_integer_containing: expected one threshold chain per signedness")
                chain(ifs[0], sg)
    if not found or n < 6:
        raise AnalysisError("_integer_containing: threshold chains not found")


def check_alloc_only_heap(rep, model, E, RULE):
    """allocation events (malloc / free / = NULL) are only ever emitted for heap-allocated string outputs"""
    for cl in model.concrete_subclasses("Action"):
        if cl == "Action":
            continue
        fp = E.enumerate(ACT, classes={"action": cl})
        done = set()
        for p in fp.paths:
            if p.end and p.end[0] == "raise":
                continue
            v = p.valuation()
            for e in events_of(list(_flat_lines(fp.lines(p)))):
                if e.kind in ("FREE", "MALLOC", "NULLIFY"):
                    is_str = v.get(f"{OUT}.type == OutputStorageType.STR")
                    heap = v.get("F:ALLOCATE_STR_SPACE_DYNAMIC") is True or v.get("F:ALLOCATE_STR_SPACE_DYNAMIC_ON_DEMAND") is True
                    k = (cl, e.kind, is_str, heap)
                    if k in done:
                        continue
                    done.add(k)
                    rep.check(is_str is True and heap, RULE, ACT, f"{cl}: {e.kind} only on a heap string [STR={is_str}, heap={heap}]",
                              f"`{e.text.strip()}` can be emitted for an output that is not a heap-allocated string (raw outputs are scalars: free() of an integer member)")


_run_l05 = run


def run(ctx, rep, tier):
    _run_l05(ctx, rep, tier)
    from .shared import delegate
    delegate(ctx, rep, tier, "C05", ("C05.l",), "C03.k", "the input pointer is never advanced twice for one byte (early advance for a yield + re-dispatch by an overflowing append): feed() would read past `end`")


# ---------------------------------------------------------------------------------------------------------------- C03.l / m / n
def _start_time_strings(ctx, rep, tier):
    import ast, re
    model, E = ctx.model, ctx.emit
    # C03.l - no unconditional allocation in an action template (an earlier action, also among the start actions, may have allocated already)
    rep.rule("C03.l", "action templates allocate on-demand strings only through the NULL-guarded form (an unconditional malloc leaks what an earlier action allocated)")
    n = 0
    for cl in [c for c in model.concrete_subclasses("Action") if c != "Action"]:
        fp = E.enumerate(ACT, classes={"action": cl})
        for p in fp.paths:
            for e in events_of(fp.lines(p)):
                if e.kind == "MALLOC":
                    n += 1
                    rep.check(e.c == "guarded", "C03.l", ACT, f"{cl}: allocation is `if (!x) x = malloc(..)`", f"{cl} allocates unconditionally ({e.text.strip()}): with on-demand allocation two assignments "
                              "among the start actions (`x = \"a\"; x = \"b\";` before the first match) leak the first buffer")
    if n < 3:
        raise AnalysisError(f"C03.l: only {n} allocation events found in action templates")
    # C03.m - sizes
    rep.rule("C03.m", "declared string sizes below 1 are refused (a terminated str[0] has usable size -1: the capacity test of an append can never fire)")
    q = "ParseCtx._parse_out_decl"
    ok = model.has(q, "str_size = self._convert_int(type_obj.children[0].value)\nif str_size < 1:\n    raise IllegalParseTree($$m, type_obj.children[0])")
    mk = [c for c in ast.walk(model.func(q)) if isinstance(c, ast.Call) and ast.unparse(c.func) == "OutputStorage" and any(k.arg == "str_size" for k in c.keywords)]
    rep.check(ok and len(mk) == 1 and ast.unparse(next(k.value for k in mk[0].keywords if k.arg == "str_size")) == "str_size", "C03.m", q, "the validated size is the one stored",
              "`out str[0] x;` / negative sizes are accepted: the capacity comparison `counter == -1` never holds and every append writes outside the buffer")
    # C03.n - initial terminator
    rep.rule("C03.n", "start(): a terminated string without default is terminated at length 0 as soon as it has a buffer (after the heap-init loop, before the start actions)")
    fp = E.enumerate("CodegenCtx._generate_start_implementation")
    seen = 0
    for p in fp.paths:
        items = list(fp.lines(p))
        loops = [it for it in items if isinstance(it, LoopBlock) and "self.state_object_spec" in it.iter_src]
        term = None
        for it in loops:
            for delta, sub, endk, end in it.bodies:
                if any(e.kind == "WRITE" and e.b == "0" and e.c == "0" for e in events_of(sub)):
                    term = it
        on_demand = p.atoms.get("F:ALLOCATE_STR_SPACE_DYNAMIC_ON_DEMAND") is True
        if term is None:
            rep.check(on_demand, "C03.n", "CodegenCtx._generate_start_implementation", "no initial terminator only when there is no buffer yet (on-demand allocation)",
                      "start() never writes the terminator of a string without default: x[0] is whatever the caller's memory / a fresh malloc holds while the length is 0")
            continue
        seen += 1
        heap = [it for it in loops if any(e.kind in ("MALLOC", "NULLIFY") for _, sub, _, _ in it.bodies for e in events_of(sub)) and it is not term and it is not loops[0]]
        rep.check(all(items.index(h) < items.index(term) for h in heap), "C03.n", "CodegenCtx._generate_start_implementation", "terminator written after the buffer exists", "terminator written before allocation")
        acts = [it for it in items if isinstance(it, LoopBlock) and "self.start_actions" in it.iter_src]
        rep.check(all(items.index(term) < items.index(a) for a in acts), "C03.n", "CodegenCtx._generate_start_implementation", "terminator written before the start actions run",
                  "the initial terminator is written after the start actions: a string constant assigned as the parser's first statement gets its first byte overwritten with NUL")
        for delta, sub, endk, end in term.bodies:
            writes = [e for e in events_of(sub) if e.kind == "WRITE"]
            conds = {k: b for k, b in delta.items()}
            if writes:
                no_default = conds.get("out_expr.default_value is not None") is False or conds.get("out_expr.default_value is None") is True
                is_str = conds.get("out_expr.type != OutputStorageType.STR") is False or conds.get("out_expr.type == OutputStorageType.STR") is True
                need = no_default and is_str and conds.get("out_expr.str_null") is True
                rep.check(need and conds.get("F:ALLOCATE_STR_SPACE_DYNAMIC_ON_DEMAND") is not True, "C03.n", "CodegenCtx._generate_start_implementation", "terminator for exactly: STR, terminated, no default, buffer present",
                          f"initial terminator emitted under {conds}")
    rep.count("start_paths_with_initial_terminator", seen)


_run_lmn = run


def run(ctx, rep, tier):
    _run_lmn(ctx, rep, tier)
    _start_time_strings(ctx, rep, tier)
