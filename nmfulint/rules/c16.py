"""C16 - wait never fails and restarts at the pattern start (DESIGN.md section 3, C16)."""
import ast, re
from ..core import AnalysisError
from ..srcmodel import walk_no_nested, calls_in, strip_doc
from ..builders import chains_in, parse_chain
from ..dispatch import dispatch_on

EXPLANATION = (
    "Equivalence with a restart automaton is NOT decided. Decided on WaitMatch.convert, the single mechanism, by "
    "dataflow over its loop: C16.a total retargeting - the loop ranges over every transition of the converted "
    "sub-match that points to the no-match handler (the same handler expression the sub-match was converted with) and "
    "each one is unconditionally sent to the pattern's start state, so no symbol (End included) can reach the handler "
    "from inside the wait. C16.b consume only at the start: the retargeted transition stays a fallthrough (offending "
    "byte re-examined from the pattern start) except exactly when its source is the start state, where it consumes. "
    "C16.c wait wraps every match kind and forwards attached actions to the wrapped match.")
NOT_DECIDED = "that the retargeted machine equals the restart automaton of the pattern (depends on the sub-match's DFA); interaction with later optimisation passes (C05)"
ENGINES = ["E1 source model", "builder-chain recogniser", "E3 dispatch"]

FN = "WaitMatch.convert"


def run(ctx, rep, tier):
    model = ctx.model
    fn = model.func(FN)
    params = [a.arg for a in fn.args.args]
    if len(params) != 2:
        raise AnalysisError("WaitMatch.convert signature changed")
    hm = params[1]
    body = strip_doc(fn.body)
    conv = [st for st in body if isinstance(st, ast.Assign) and isinstance(st.value, ast.Call) and ast.unparse(st.value.func).endswith(".convert")]
    if len(conv) != 1:
        raise AnalysisError("WaitMatch.convert: sub-match conversion not found")
    sm = ast.unparse(conv[0].targets[0])
    rep.rule("C16.a", "every transition of the converted sub-match that points to the no-match handler is unconditionally retargeted to the pattern start")
    rep.check(ast.unparse(conv[0].value) == f"self.match_contents.convert({hm})", "C16.a", FN, "sub-match converted with the caller's handler map",
              f"sub-match converted as {ast.unparse(conv[0].value)}")
    loops = [st for st in body if isinstance(st, ast.For)]
    if len(loops) != 1:
        raise AnalysisError("WaitMatch.convert: expected exactly one retargeting loop")
    loop = loops[0]
    it = loop.iter
    ok = isinstance(it, ast.Call) and ast.unparse(it.func) == f"{sm}.transitions_pointing_to" and it.args and ast.unparse(it.args[0]) == f"{hm}[ErrorReasons.NO_MATCH]"
    incl = ok and ((len(it.args) >= 2 and ast.unparse(it.args[1]) == "True") or any(k.arg == "include_states" and ast.unparse(k.value) == "True" for k in it.keywords))
    rep.check(ok and incl, "C16.a", FN, "loop over sm.transitions_pointing_to(<no-match handler>, include_states)",
              f"retargeting loop ranges over `{ast.unparse(it)}`: some transitions to the no-match handler are not visited")
    tgt = loop.target
    if not (isinstance(tgt, ast.Tuple) and len(tgt.elts) == 2):
        raise AnalysisError("retargeting loop target is not (state, transition)")
    st_name, tr_name = ast.unparse(tgt.elts[0]), ast.unparse(tgt.elts[1])
    # first-level statements of the loop body
    retarget = None
    for i, st in enumerate(loop.body):
        if isinstance(st, ast.Expr) and isinstance(st.value, ast.Call):
            ch = parse_chain(st.value)
            if ch is not None and ch.root == tr_name and ch.to is not None:
                retarget = (i, ch)
    # the only statement allowed before it: skipping states that are not part of the pattern's own machine (C16.h)
    scope_guard = [st for st in loop.body if isinstance(st, ast.If) and ast.unparse(st.test) == f"{st_name} not in {sm}.states" and len(st.body) == 1 and isinstance(st.body[0], ast.Continue) and not st.orelse]
    lead = 1 if (scope_guard and loop.body[0] is scope_guard[0]) else 0
    rep.check(retarget is not None and retarget[0] == lead and retarget[1].to == f"{sm}.starting_state", "C16.a", FN, "retarget is the loop's first statement for every state of the pattern, unconditionally",
              "the retargeting to the pattern start is conditional or goes elsewhere: some byte (or end-of-input) inside the wait still reaches the enclosing handler")
    if retarget:
        rep.check(retarget[1].truthy("handles_else"), "C16.a", FN, "retargeted transitions stay marked as no-match paths", "retargeted transitions lose the error-handling mark")
        rep.check(retarget[1].fallthrough is None, "C16.b", FN, "retarget keeps the transition a fallthrough", "the retarget statement itself changes the fallthrough flag")
    # no return / continue / break inside the loop
    esc = [n for n in ast.walk(loop) if isinstance(n, (ast.Continue, ast.Break, ast.Return)) and not (scope_guard and n is scope_guard[0].body[0])]
    rep.check(not esc, "C16.a", FN, "loop visits every element", "the loop skips elements (continue/break/return)")
    rets = [st for st in body if isinstance(st, ast.Return)]
    rep.check(len(rets) == 1 and ast.unparse(rets[0].value) == sm and body.index(rets[0]) > body.index(loop), "C16.a", FN, "returns the retargeted machine", "return value changed")

    rep.rule("C16.b", "the retargeted transition consumes exactly when its source state is the pattern's start state; elsewhere it stays a fallthrough")
    falls = []
    for n in ast.walk(loop):
        if isinstance(n, ast.Call) and isinstance(n.func, ast.Attribute) and n.func.attr == "fallthrough":
            falls.append(n)
    ok = False
    why = "no `.fallthrough(False)` on the start state's transition"
    if len(falls) == 1:
        f = falls[0]
        arg = ast.unparse(f.args[0]) if f.args else "True"
        # enclosing if
        n = f
        guard = None
        depth = 0
        while n is not loop:
            n = model.parents[n]
            if isinstance(n, ast.If):
                guard = n if guard is None else guard
                depth += 1
        cond = ast.unparse(guard.test) if guard is not None else None
        good_cond = cond in (f"{st_name} == {sm}.starting_state", f"{sm}.starting_state == {st_name}", f"{st_name} is {sm}.starting_state")
        ok = arg == "False" and depth == 1 and good_cond
        why = f"`.fallthrough({arg})` is applied under `{cond}` (nesting {depth})"
    elif len(falls) > 1:
        why = "more than one fallthrough change in the loop"
    rep.check(ok, "C16.b", FN, "fallthrough(False) exactly under `state == sm.starting_state`",
              why + ": consuming the offending byte mid-pattern loses the byte that may restart the pattern; not consuming at the start state is a non-consuming cycle")
    if len(falls) == 1:
        ch = None
        n = falls[0]
        while n in model.parents and not isinstance(model.parents[n], ast.Expr):
            n = model.parents[n]
        ch = parse_chain(n)
        rep.check(ch is not None and ch.root == tr_name and any("self.char_actions" in " ".join(a) for a, _ in ch.attach), "C16.b", FN, "skipped bytes run the per-character actions",
                  "per-character actions are no longer attached to the byte-skipping transition")

    rep.rule("C16.c", "wait wraps every match kind; actions attached to the wait are forwarded to the wrapped match")
    ps = model.func("ParseCtx._parse_stmt")
    d = dispatch_on(ps.body, "stmt.data", ctx.module_str_lists())
    arm = d.arm_for("wait_stmt")
    src = "\n".join(ast.unparse(s) for s in arm) if arm else ""
    rep.check(src == "return MatchNode(WaitMatch(self._parse_match_expr(stmt.children[0])))", "C16.c", "ParseCtx._parse_stmt", "wait_stmt -> MatchNode(WaitMatch(<any match expr>))", f"wait statement builds `{src}`")
    at = model.func("WaitMatch.attach")
    asrc = ast.unparse(at)
    rep.check("self.match_contents.attach(action)" in asrc and "super().attach(action)" in asrc, "C16.c", "WaitMatch.attach", "forwards to the wrapped match and records its own copy", "WaitMatch.attach changed")
    init = ast.unparse(model.func("WaitMatch.__init__"))
    rep.check(model.has("WaitMatch.__init__", "self.match_contents = sub_match"), "C16.c", "WaitMatch.__init__", "wraps the sub-match", "WaitMatch constructor changed")


def _shared(ctx, rep, tier):
    from ..core import Report
    from . import c05, c09
    rep.rule("C16.d", "passes that later rewrite the wait's restart transitions keep them: the fall-through optimiser translates Else by the right states (C05.b) and joining a "
                      "wait after another statement widens / redirects the error-marked Else for every end state (C09.a)")
    n = 0
    for mod, rules in ((c05, ("C05.b",)), (c09, ("C09.a",))):
        sub = Report(mod.__name__[-3:].upper())
        mod.run(ctx, sub, tier)
        for v in sub.violations:
            if v.rule in rules:
                rep.bad("C16.d", v.function, v.construct, v.message, v.extra, v.line)
                n += 1
    if not n:
        rep.ok("C16.d", "DfaCompileCtx._optimize_shortcircuit_fallthroughs / DFA.append_after", "shared conditions hold")


_run0 = run


def run(ctx, rep, tier):
    _run0(ctx, rep, tier)
    _shared(ctx, rep, tier)


_run_structs = run


def run(ctx, rep, tier):
    _run_structs(ctx, rep, tier)
    from . import structs
    from .shared import delegate
    delegate(ctx, rep, tier, "C01", ("C01.d",), "C16.g", "no-match transitions of every match kind are built fall-through: the restart edges of a wait are these transitions retargeted, and rely on it")
    structs.check_copy_complete(ctx, rep, "C16.e")
    structs.check_cull_policy(ctx, rep, "C16.f")
    delegate(ctx, rep, tier, "C17", ("C17.d",), "C16.j", "end-of-input during a wait merely reports the parse as incomplete: end() does not take the wait's restart edge (an error path that "
             "lists End) for a matched `end` pattern - it would re-dispatch from the wait's start for ever")


def _wait_scope_and_optional_entry(ctx, rep, tier):
    model = ctx.model
    rep.rule("C16.h", "a wait retargets only mismatches of its own pattern: transitions reached through an action that leaves the pattern (a break) are skipped")
    ok = model.has(FN, "for state, trans in sm.transitions_pointing_to(current_error_handlers[ErrorReasons.NO_MATCH], True):\n    if state not in sm.states:\n        continue\n    ...")
    rep.check(ok, "C16.h", FN, "retargeting is restricted to states of the pattern's own machine", "the restart edges of a wait leak into whatever a break attached to its last transition leads to: "
              "`loop { wait \"ab\"; break; } \"cd\";` can never fail after the wait has completed")
    rep.rule("C16.i", "a construct that merges foreign transitions into a body's start state (optional) does so on a copy when the body can return to that state (a wait's restart target)")
    q = "OptionalNode.convert"
    ok = model.has(q, "if sub_dfa.transitions_pointing_to(sub_dfa.starting_state):\n    entry_state = DFState()\n    sub_dfa.add(entry_state)\n    for trans in sub_dfa.starting_state.transitions:\n"
                      "        entry_state.transition(trans.copy(), collapse_else=False)\n    sub_dfa.starting_state = entry_state\nsub_dfa.mark_accepting(sub_dfa.starting_state)")
    rep.check(ok, "C16.i", q, "re-entrant start state: the optional is entered (and skipped) through a copy", "`optional { wait \"ab\"; } \"c\";`: what follows the optional is merged into the wait's restart state - "
              "the wait fails on \"axabc\" and is abandoned on \"ac\"")


_run_hi16 = run


def run(ctx, rep, tier):
    _run_hi16(ctx, rep, tier)
    _wait_scope_and_optional_entry(ctx, rep, tier)


_run_r6 = run


def run(ctx, rep, tier):
    _run_r6(ctx, rep, tier)
    from .shared import delegate
    delegate(ctx, rep, tier, "C06", ("C06.b", "C06.g"), "C16.k", "the restart of a wait is stored: every transition that may end a feed() stores the state the machine is in afterwards, so that the next chunk resumes in the "
             "pattern's start state and not in the abandoned partial match")
