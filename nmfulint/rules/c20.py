"""C20 - compilation is a pure function of source and options (DESIGN.md section 3, C20)."""
import ast, re
from ..core import AnalysisError
from ..srcmodel import walk_no_nested, calls_in, strip_doc
from ..settyping import SetTyping

EXPLANATION = (
    "Observational equivalence of two compilations is NOT decided. Decided - the ways a compilation could depend on history, "
    "addresses or hash order: C20.a every class-level mutable container is re-created by the per-run reset, or is in a frozen "
    "table with a reason (write-only id registries); a new class-level container (state leaking from one compilation into the "
    "next) is reported. C20.b hash-order independence of observable order: values are typed set-like when they originate from "
    "set constructors / literals / set-returning functions (objects hash by address, strings by PYTHONHASHSEED); every "
    "order-revealing consumption is an instance; an instance is discharged when it only feeds numbering (state / symbol order, "
    "debug parents, message wording) or mutates the loop element itself; an instance that picks one element as *the* result, "
    "or feeds an action/concatenation sink through a loop-invariant receiver, or leaves the function as an ordered value (list(set) passed to a constructor, returned or stored - symbol collections excepted), must be in the triage table with its reason. "
    "C20.c no ambient inputs (time, random, environment); id() flows only into the debug store and a label name used on both "
    "sides. C20.d the id()-keyed debug store guards only imbue calls, diagnostics and skip-label emission. C20.e no mutated "
    "mutable default arguments.")
NOT_DECIDED = "equivalence up to renaming of two compiled machines; that numbering sinks really are unobservable (it follows from C06.a/b: indices are only compared for equality)"
ENGINES = ["E1 source model", "set-typing dataflow (E9)"]

# class-level containers that are not reset per run: reason
CLASS_STATE_TRIAGE = {
    ("DFState", "all_states"): "id -> state registry; only read by the integer-id convenience API (to(int) / mark_accepting(int)) used by tests; never iterated",
    ("DFA", "all_state_machines"): "never read",
    ("ProgramData", "_current_source"): "replaced wholesale by load_source() for every compilation; read only by diagnostics",
    ("ProgramData", "_OPTIMIZE_LEVELS"): "constant table, never mutated",
}
# order-revealing picks that are deterministic for a stated reason: (function, normalised source)
PICK_TRIAGE = {
    ("CaseNode._merge.create_real_state_of", "max(corresponds_to_finishes_in, key=lambda x: priorities[x])"): "a tie at the maximum raises (C09.c), so the maximum is unique",
    ("CaseNode._merge.create_real_state_of", "next(iter(corresponds_to_finishes_in))"): "only evaluated when the set has exactly one element",
    ("CaseNode._merge.create_real_state_of", "next(iter(state))"): "debug parent only (ProgramData.imbue .. DTAG.PARENT)",
    ("RegexNFA.convert_to_dfa", "next(iter(new_state))"): "debug parent only",
    ("RegexNFA.convert_to_dfa", "next(iter(start_dfa_state))"): "debug parent only",
    ("RegexNFA.minimize_dfa.add_back", "next(iter(subset))"): "representative of an equivalence class of DFA states: all members have equivalent transitions",
    ("RegexMatch._interpret_parse_tree", "list(self._visit_all_char_classes(regex_tree))[0]"): "a class-leaf node yields a singleton set",
    ("RegexMatch._visit_all_char_classes", "list(self._convert_raw_regex_unimportant(child.children[0]).chars)[0]"): "singleton set (one character)",
    ("RegexMatch._visit_all_char_classes", "list(self._convert_raw_regex_unimportant(child.children[1]).chars)[0]"): "singleton set (one character)",
    ("BinaryRegexMatch._visit_all_char_classes", "list(self._convert_raw_regex_unimportant(child.children[0]).chars)[0]"): "singleton set (one byte)",
    ("BinaryRegexMatch._visit_all_char_classes", "list(self._convert_raw_regex_unimportant(child.children[1]).chars)[0]"): "singleton set (one byte)",
    ("DFA.append_after", "list(relevant_values_in_msg)[:3]"): "wording of an error message only",
    ("DFA.trace", "potential[0]"): "test-only simulation helper",
}
LOOP_TRIAGE = {
    ("CaseNode.convert", "for i in mergeable_ds"): "links each pattern's finish states to its clause: finish-state sets of distinct patterns are disjoint, so no transition receives actions from two iterations",
    ("DFState.transition", "for i in self.all_transitions()"): "first overlapping transition: transitions of one state have disjoint symbols except while being replaced",
}
SINK_METHODS = {"attach", "append_after", "chain_actions_into", "chain_actions_at_end"}
AMBIENT = {"time", "random", "datetime", "uuid", "getpass", "socket", "secrets", "platform"}


# hash-ordered lists handed to another object: (function, sink) -> why the order is not observable
STORED_ORDER_TRIAGE = {
    ("ConditionalAction.get_target_override_targets", "return list(tgts)"): "override targets are only iterated to mark states reachable / to index them one by one",
}
BREAK_TRIAGE = {}
SYMBOL_SINKS = {"DFTransition"}        # constructors whose list argument is a symbol collection (compared as a set, emitted sorted: C06)


def escaping_order(model, node, fn):
    """Where the list built from a hash-ordered set goes, if it leaves the function as an ordered value: text of the sink, else None.
    Not escaping: symbol collections (.on_values / DFTransition(..)), order-insensitive wrappers, locals that are only iterated."""
    par = model.parents.get(node)
    if isinstance(par, ast.Call):
        callee = ast.unparse(par.func)
        if callee in ("any", "all", "sum", "set", "frozenset", "len", "sorted", "dict", "max", "min", "next", "enumerate", "iter") or callee.endswith(".join") or callee.endswith(".update"):
            return None
        if callee in SYMBOL_SINKS:
            return None
        return f"{callee}(.. {ast.unparse(node)[:50]} ..)"
    if isinstance(par, ast.keyword):
        call = model.parents.get(par)
        callee = ast.unparse(call.func) if isinstance(call, ast.Call) else "?"
        return f"{callee}({par.arg}={ast.unparse(node)[:50]})"
    if isinstance(par, ast.Return):
        return f"return {ast.unparse(node)[:60]}"
    if isinstance(par, ast.Assign):
        tgt = par.targets[0]
        if isinstance(tgt, ast.Attribute):
            if tgt.attr in ("on_values", "sub_matches"):
                return None          # symbols of a transition / alternatives of a regex node (a set again: C20.b anchor below)
            return f"{ast.unparse(tgt)} = {ast.unparse(node)[:50]}"
        if isinstance(tgt, ast.Name):
            # a local: escapes if it is later handed to a constructor / returned / stored
            for u in ast.walk(fn):
                if isinstance(u, ast.Name) and u.id == tgt.id and isinstance(u.ctx, ast.Load):
                    up = model.parents.get(u)
                    if isinstance(up, ast.keyword) or isinstance(up, ast.Return):
                        return f"{tgt.id} -> {ast.unparse(up)[:50]}"
                    if isinstance(up, ast.Call) and u in up.args and isinstance(up.func, ast.Name) and up.func.id in model.classes and up.func.id not in SYMBOL_SINKS:
                        return f"{tgt.id} -> {ast.unparse(up)[:50]}"
                    if isinstance(up, ast.Assign) and up.value is u and isinstance(up.targets[0], ast.Attribute) and up.targets[0].attr not in ("on_values", "sub_matches"):
                        return f"{tgt.id} -> {ast.unparse(up)[:50]}"
            return None
    return None


def names_in(node):
    return {n.id for n in ast.walk(node) if isinstance(n, ast.Name)}


def run(ctx, rep, tier):
    model = ctx.model

    # ------------------------------------------------------------------ C20.a class-level state
    rep.rule("C20.a", "class-level mutable containers are re-created by ProgramData._reset_flags (first effect of every run) or triaged")
    reset = model.func("ProgramData._reset_flags")
    reset_attrs = set()
    for n in walk_no_nested(reset):
        if isinstance(n, ast.Assign):
            for t in n.targets:
                if isinstance(t, ast.Attribute) and isinstance(t.value, ast.Name) and t.value.id == "cls":
                    reset_attrs.add(t.attr)
    n_state = 0
    for cname, ci in model.classes.items():
        for attr, val in ci.attrs.items():
            mutable = isinstance(val, (ast.Dict, ast.List, ast.Set, ast.DictComp, ast.ListComp, ast.SetComp)) or \
                (isinstance(val, ast.Call) and isinstance(val.func, ast.Name) and val.func.id in ("dict", "list", "set", "defaultdict", "Counter", "OrderedDict", "deque"))
            if not mutable:
                continue
            if any("Enum" in b for b in ci.bases):
                continue
            n_state += 1
            if cname == "ProgramData" and attr in reset_attrs:
                rep.ok("C20.a", f"{cname}.{attr}", "re-created by _reset_flags")
            elif (cname, attr) in CLASS_STATE_TRIAGE:
                rep.ok("C20.a", f"{cname}.{attr}", "triaged: " + CLASS_STATE_TRIAGE[(cname, attr)][:80], nontrivial=False)
            else:
                rep.bad("C20.a", f"{cname}.{attr}", "class-level mutable container",
                        f"{cname}.{attr} is a class-level {type(val).__name__} that is neither reset per run nor triaged: whatever one compilation stores in it "
                        "(also through `self.{0}[...] = ...`) is seen by the next compilation in the same process".format(attr), line=val.lineno)
    if n_state < 8:
        raise AnalysisError(f"C20.a: only {n_state} class-level containers found (floor 8)")
    lcf = strip_doc(model.func("ProgramData.load_commandline_flags").body)
    rep.check(isinstance(lcf[0], ast.Expr) and ast.unparse(lcf[0].value) == "cls._reset_flags()", "C20.a", "ProgramData.load_commandline_flags", "reset is the first effect of a run", "reset no longer first")
    for need in ("_collection", "_children", "_refmap", "_flags", "_options", "_dump"):
        rep.check(need in reset_attrs, "C20.a", "ProgramData._reset_flags", f"resets {need}", f"_reset_flags no longer re-creates {need}")
    # metaclass cache
    ii = ast.unparse(model.func("IndexableInstance.__getitem__"))
    rep.check(model.has("IndexableInstance.__getitem__", "cls._ii_cache[obj] = cls(obj)"), "C20.a", "IndexableInstance._ii_cache", "keyed by flag; values read the current flag map at call time", "dprint cache changed")

    # ------------------------------------------------------------------ C20.b hash order
    rep.rule("C20.b", "order-revealing consumption of set-typed values only feeds numbering sinks or the loop element itself; picks and invariant-receiver sinks are triaged")
    st = SetTyping(model)
    n_inst = 0
    for q, f in model.functions.items():
        if q.startswith("debug_dump") or q == "main":
            continue
        for inst in st.instances(q, f):
            n_inst += 1
            kind, node = inst["kind"], inst["node"]
            if kind == "for":
                head = inst["src"]
                tnames = names_in(node.target)
                picks = [n for n in ast.walk(ast.Module(body=node.body, type_ignores=[])) if isinstance(n, (ast.Return, ast.Break))]
                # `break` of an inner loop does not count
                inner_loops = [n for n in ast.walk(ast.Module(body=node.body, type_ignores=[])) if isinstance(n, (ast.For, ast.While))]
                picks = [p for p in picks if not (isinstance(p, ast.Break) and any(p in ast.walk(l) for l in inner_loops))]
                sinks = []
                derived = set(tnames)
                for n in ast.walk(ast.Module(body=node.body, type_ignores=[])):
                    if isinstance(n, (ast.For,)):
                        if names_in(n.iter) & derived:
                            derived |= names_in(n.target)
                    if isinstance(n, ast.Assign) and names_in(n.value) & derived:
                        for t in n.targets:
                            derived |= names_in(t) if isinstance(t, ast.Name) else set()
                for n in ast.walk(ast.Module(body=node.body, type_ignores=[])):
                    if isinstance(n, ast.Call) and isinstance(n.func, ast.Attribute) and n.func.attr in SINK_METHODS:
                        if not (names_in(n.func.value) & derived):
                            sinks.append(ast.unparse(n)[:70])
                    if isinstance(n, ast.Call) and isinstance(n.func, ast.Attribute) and n.func.attr in ("extend", "append", "insert") and ".actions" in ast.unparse(n.func.value):
                        if not (names_in(n.func.value) & derived):
                            sinks.append(ast.unparse(n)[:70])
                key = (q, head)
                if picks and any(isinstance(p, ast.Return) and p.value is not None for p in picks):
                    rep.check(key in LOOP_TRIAGE, "C20.b", q, head + "  [first match wins]",
                              f"`{head}` iterates a hash-ordered set and returns from inside the loop: which element wins depends on object addresses / PYTHONHASHSEED", line=node.lineno)
                elif any(isinstance(p, ast.Break) for p in picks) and (q, head) not in BREAK_TRIAGE:
                    rep.bad("C20.b", q, head + "  [break: only a hash-order prefix is visited]",
                            f"`{head}` iterates a hash-ordered set and leaves the loop with `break`: which elements were examined before it stops depends on object addresses / "
                            "PYTHONHASHSEED, so a verdict or effect computed in the loop does too (unless the break follows a test every element would have to fail)", line=node.lineno)
                elif sinks:
                    rep.check(key in LOOP_TRIAGE, "C20.b", q, head + "  [action sink]",
                              f"`{head}` iterates a hash-ordered set and feeds {sinks[:2]} through a receiver that is the same in every iteration: the order of the attached actions / joined "
                              "machines depends on object addresses / PYTHONHASHSEED", line=node.lineno)
                else:
                    rep.ok("C20.b", q, head + "  [numbering / per-element only]", nontrivial=False)
            elif kind in ("next", "max", "min", "pop"):
                key = (q, inst["src"])
                if kind == "max" and key in PICK_TRIAGE:
                    # the triage reason ("a tie at the maximum raises") is re-checked, not assumed
                    ties = [n for n in ast.walk(f) if isinstance(n, ast.If) and "priorities[target]" in ast.unparse(n.test)]
                    ok = len(ties) == 1 and re.fullmatch(r"(sum\(\(?1 for (\w+) in corresponds_to_finishes_in if priorities\[\2\] == priorities\[target\]\)?\)|"
                                                         r"len\(\[(\w+) for \3 in corresponds_to_finishes_in if priorities\[\3\] == priorities\[target\]\]\)) (> 1|>= 2)",
                                                         ast.unparse(ties[0].test)) is not None and isinstance(ties[0].body[-1], ast.Raise)
                    rep.check(ok, "C20.b", q, inst["src"] + "  [pick: unique only if ties raise]",
                              "max() over a set of machines (hashed by address) is only deterministic if a tie at the maximum priority is refused; the tie test no longer counts "
                              "the finishers at the maximum, so with a masked tie the winner depends on object addresses", line=node.lineno)
                    continue
                rep.check(key in PICK_TRIAGE, "C20.b", q, inst["src"] + "  [pick]",
                          f"`{inst['src']}` picks one element of a hash-ordered set: the result depends on object addresses / PYTHONHASHSEED unless shown unique", line=node.lineno)
            elif kind == "list":
                parent = model.parents.get(node)
                if isinstance(parent, ast.Subscript) and parent.value is node:
                    src = ast.unparse(parent)
                    rep.check((q, src) in PICK_TRIAGE, "C20.b", q, src + "  [pick]", f"`{src}` indexes the list of a hash-ordered set", line=node.lineno)
                else:
                    esc = escaping_order(model, node, f)
                    if esc is None:
                        rep.ok("C20.b", q, inst["src"] + "  [order of symbols / states only]", nontrivial=False)
                    else:
                        rep.check((q, esc) in STORED_ORDER_TRIAGE, "C20.b", q, esc + "  [stored order]",
                                  f"`{esc}`: the hash order of a set becomes the stored order of a value other code enumerates (e.g. the constants of an `out enum` - their numbers "
                                  "then depend on PYTHONHASHSEED)", line=node.lineno)
            else:
                esc = escaping_order(model, node, f) if isinstance(node, ast.ListComp) else None
                if esc is None:
                    rep.ok("C20.b", q, inst["src"][:70] + "  [comprehension over a set: feeds any()/all()/sum()/set/dict or numbering]", nontrivial=False)
                else:
                    rep.check((q, esc) in STORED_ORDER_TRIAGE, "C20.b", q, esc + "  [stored order]", f"`{esc}`: the hash order of a set becomes a stored order", line=node.lineno)
    if n_inst < 30:
        raise AnalysisError(f"C20.b: only {n_inst} set-consumption instances (floor 30)")
    rep.count("set_consumption_instances", n_inst)
    # ordered lookup contexts must be ordered containers
    rep.rule("C20.b2", "multi-kind name lookups pass their kinds as an ordered tuple/list (first match wins)")
    n_ctx = 0
    for q, f in model.functions.items():
        for c in calls_in(f, nested=False):
            if not (isinstance(c.func, ast.Attribute) and c.func.attr == "_lookup_named_entity" and c.args):
                continue
            arg = c.args[0]
            via = ""
            if isinstance(arg, ast.Name) and arg.id in model.module_assigns:
                # the kinds named once at module level: what counts is the container the constant is
                via = f" (module constant {arg.id})"
                arg = model.module_assigns[arg.id]
            unordered = isinstance(arg, (ast.Set, ast.SetComp)) or (isinstance(arg, ast.Call) and ast.unparse(arg.func) in ("set", "frozenset"))
            if isinstance(arg, (ast.Tuple, ast.List)) or unordered:
                n_ctx += 1
                rep.check(not unordered, "C20.b2", q, f"lookup context {ast.unparse(arg)}{via}",
                          "a set of kinds is searched first-match-wins: which kind wins for a name declared as both depends on PYTHONHASHSEED", line=c.lineno)
    if n_ctx < 2:
        raise AnalysisError("C20.b2: multi-kind lookups not found")
    # RegexAlternation is an unordered set of alternatives (language is order independent)
    ra = ast.unparse(model.func("RegexAlternation.__init__"))
    rep.check(model.has("RegexAlternation.__init__", "self.sub_matches = set(sub_matches)"), "C20.b", "RegexAlternation.__init__", "alternatives form a set (union is order independent)", "RegexAlternation storage changed: re-triage")

    # ------------------------------------------------------------------ C20.c ambient inputs
    rep.rule("C20.c", "no ambient inputs: no time / random / environment; id() only feeds the debug store and a label name used on both sides")
    for n in model.tree.body:
        if isinstance(n, (ast.Import, ast.ImportFrom)):
            mods = [a.name.split(".")[0] for a in n.names] if isinstance(n, ast.Import) else [n.module.split(".")[0] if n.module else ""]
            for m in mods:
                rep.check(m not in AMBIENT, "C20.c", "<module>", f"import {m}", f"module {m} is a source of run-dependent values")
    for q, f in model.functions.items():
        if q.startswith("debug_dump") or q == "main" or q.startswith("ProgramData.") or q.startswith("DFState.__init__"):
            continue
        for c in calls_in(f, nested=False):
            s = ast.unparse(c.func)
            if s in ("os.getenv", "os.environ.get", "os.urandom", "os.getpid") or s.startswith("os.environ"):
                rep.bad("C20.c", q, ast.unparse(c)[:60], "reads the process environment during compilation", line=c.lineno)
            if s in ("id", "hash") and not (q.endswith("__hash__")):
                ok = q in ("CodegenCtx._transition_skip_action_label", "RegexMatch._create_dfa_state")
                rep.check(ok, "C20.c", q, ast.unparse(c)[:60], "an object address / hash flows into compilation outside the label name and the per-regex memo key", line=c.lineno)
    # the id()-derived label: defined and used through the same expression (C11.a3)
    users = [q for q, f in model.functions.items() for c in calls_in(f, nested=False) if isinstance(c.func, ast.Attribute) and c.func.attr == "_transition_skip_action_label"]
    rep.check(sorted(set(users)) == ["CodegenCtx._generate_action_implementation", "CodegenCtx._generate_transition_body"], "C20.c", "CodegenCtx._transition_skip_action_label",
              "address-derived label name is produced by one helper for goto and label", f"label helper used by {sorted(set(users))}")
    ta = ast.unparse(model.func("CodegenCtx._generate_transition_body"))
    rep.check(model.has("CodegenCtx._generate_transition_body", "// action {action!r} "), "C20.c", "CodegenCtx._generate_transition_body", "repr() of actions appears only in a C comment", "repr() placement changed")

    # ------------------------------------------------------------------ C20.d debug-tag store
    rep.rule("C20.d", "ProgramData.lookup results only guard imbue calls, render diagnostics, or decide an (ignorable) skip label")
    n_lk = 0
    for q, f in model.functions.items():
        if q.startswith("debug_dump") or q.startswith("ProgramData.") or q == "main":
            continue
        cls = q.split(".")[0]
        if cls in model.classes and model.is_subclass(cls, "NMFUError"):
            continue
        if q.endswith(".debug_lookup"):
            continue
        for c in calls_in(f, nested=False):
            if ast.unparse(c.func) == "ProgramData.lookup":
                n_lk += 1
                par = model.parents.get(c)
                tag = ast.unparse(c.args[1]) if len(c.args) > 1 else ""
                guard_imbue = isinstance(par, ast.Compare) and isinstance(par.ops[0], ast.Is) and isinstance(model.parents.get(par), (ast.If, ast.BoolOp))
                if guard_imbue:
                    n2 = par
                    while n2 in model.parents and not isinstance(n2, ast.If):
                        n2 = model.parents[n2]
                    guard_imbue = isinstance(n2, ast.If) and all("ProgramData.imbue(" in ast.unparse(s) for s in n2.body)
                skip = q == "CodegenCtx._generate_transition_body" and tag == "DTAG.ACTION_MAY_SKIP"
                rep.check(guard_imbue or skip, "C20.d", q, ast.unparse(c)[:80],
                          "a value read from the id()-keyed debug store (which can hold stale tags of dead objects) steers compilation", line=c.lineno)
    if n_lk < 4:
        raise AnalysisError("C20.d: lookup sites not found")
    er = ast.unparse(model.func("ProgramData._ensure_refmapped"))
    rep.check(model.has("ProgramData._ensure_refmapped", "if cls._refmap[id(obj)]() is not obj:") and model.has("ProgramData._ensure_refmapped", "cls._collection[id(obj)] = {}"), "C20.d", "ProgramData._ensure_refmapped",
              "a recycled id() drops the previous object's tags on imbue", "stale-tag protection changed")

    # ------------------------------------------------------------------ C20.e mutable defaults
    rep.rule("C20.e", "no function mutates a mutable default argument")
    n_def = 0
    for q, f in model.functions.items():
        args = f.args.args + f.args.kwonlyargs
        defaults = [None] * (len(f.args.args) - len(f.args.defaults)) + list(f.args.defaults) + list(f.args.kw_defaults)
        for a, d in zip(args, defaults):
            if isinstance(d, (ast.List, ast.Dict, ast.Set)) or (isinstance(d, ast.Call) and isinstance(d.func, ast.Name) and d.func.id in ("list", "dict", "set")):
                n_def += 1
                mutated = False
                for n in walk_no_nested(f):
                    if isinstance(n, ast.Call) and isinstance(n.func, ast.Attribute) and isinstance(n.func.value, ast.Name) and n.func.value.id == a.arg and \
                            n.func.attr in ("append", "extend", "insert", "add", "update", "pop", "remove", "clear", "setdefault"):
                        mutated = True
                    if isinstance(n, (ast.Assign, ast.AugAssign)):
                        for t in (n.targets if isinstance(n, ast.Assign) else [n.target]):
                            if isinstance(t, ast.Subscript) and isinstance(t.value, ast.Name) and t.value.id == a.arg:
                                mutated = True
                # stored on self and mutated elsewhere through the attribute?
                stored = [ast.unparse(n.targets[0]).split(".")[-1] for n in walk_no_nested(f) if isinstance(n, ast.Assign) and isinstance(n.value, ast.Name) and n.value.id == a.arg
                          and isinstance(n.targets[0], ast.Attribute)]
                for attr in stored:
                    for q2, f2 in model.functions.items():
                        for n in walk_no_nested(f2):
                            if isinstance(n, ast.Call) and isinstance(n.func, ast.Attribute) and n.func.attr in ("append", "extend", "insert", "add", "update") and \
                                    ast.unparse(n.func.value).endswith("." + attr):
                                mutated = True
                rep.check(not mutated, "C20.e", q, f"default {a.arg}={ast.unparse(d)}", "a mutable default argument is mutated: it accumulates across calls and compilations", line=f.lineno)
    if n_def < 1:
        raise AnalysisError("C20.e: no mutable default found (OutputStorage.enum_values expected)")


# ---------------------------------------------------------------------------------------------------------------- C20.f
def _id_keyed_store_identity(ctx, rep, tier):
    """C20.f: the debug store is keyed by id(); ids are reused after an object dies. Every reader and writer must check that the entry stored
    under an id belongs to the object asked about (the weak reference kept next to it is that object), else a diagnostic depends on which dead
    object owned the address before - i.e. on earlier compilations in the process and on memory layout - and may not render at all (C18)."""
    import ast
    model = ctx.model
    rep.rule("C20.f", "id()-keyed debug store: writers and readers drop an entry whose weak reference is not the object asked about before using it")
    ok = model.has("ProgramData._ensure_refmapped", "if cls._refmap[id(obj)]() is not obj:\n    cls._refmap[id(obj)] = weakref.ref(obj)\n    cls._children[id(obj)] = []\n    cls._collection[id(obj)] = {}")
    rep.check(ok, "C20.f", "ProgramData._ensure_refmapped", "writer: an id now owned by another object starts from empty tables", "imbue() no longer resets the tables of a reused id")
    rep.check(model.has("ProgramData.imbue", "cls._ensure_refmapped(obj)"), "C20.f", "ProgramData.imbue", "every write goes through the identity check", "imbue() writes without checking who owns the id")
    lk = model.func("ProgramData.lookup")
    body = strip_doc(lk.body)
    first_read = next((i for i, st in enumerate(body) if "_collection[id_obj]" in ast.unparse(st) and not ("_refmap" in ast.unparse(st) and isinstance(st, ast.If) and "is not obj" in ast.unparse(st))), None)
    guard = next((i for i, st in enumerate(body) if isinstance(st, ast.If) and
                  any("cls._refmap[id_obj]() is not obj" in ast.unparse(t) for t in [st.test] + [e.test for e in ast.walk(st) if isinstance(e, ast.If)])), None)
    okg = guard is not None and model.has("ProgramData.lookup", "del cls._refmap[id_obj]\ncls._collection[id_obj] = {}\ncls._children[id_obj] = []")
    reads = [i for i, st in enumerate(body) if "_collection[id_obj][" in ast.unparse(st) or "tag not in ProgramData._collection[id_obj]" in ast.unparse(st)]
    rep.check(okg and bool(reads) and guard < min(reads), "C20.f", "ProgramData.lookup", "reader: a stale entry (weak reference is not the object) is dropped before the tables are read",
              "lookup() reads the tables of an id without checking that they belong to this object: a diagnostic citing a never-tagged object shows the position of a dead object "
              "with the same address, or cannot be rendered (TypeError in the column marker) - dependent on earlier compilations and memory layout")


_run_f20 = run


def run(ctx, rep, tier):
    _run_f20(ctx, rep, tier)
    _id_keyed_store_identity(ctx, rep, tier)



# ---------------------------------------------------------------------------------------------------------------- C20.g
PROCESS_SETTERS = ("sys.setrecursionlimit", "sys.setswitchinterval", "os.chdir", "os.putenv", "os.umask", "locale.setlocale", "random.seed", "gc.disable", "gc.enable",
                   "warnings.simplefilter", "warnings.filterwarnings", "threading.stack_size", "resource.setrlimit")


def process_state_changes(tree):
    """(call source, restored?) for every call in `tree` that changes a process-wide interpreter setting; restored = the call stands in a try whose `finally`
    calls the same setter again (or it is itself inside a `finally`)."""
    parents = {}
    for n in ast.walk(tree):
        for ch in ast.iter_child_nodes(n):
            parents[ch] = n
    out = []
    for n in ast.walk(tree):
        if isinstance(n, ast.Call) and ast.unparse(n.func) in PROCESS_SETTERS:
            name = ast.unparse(n.func)
            restored = False
            child, p = n, parents.get(n)
            while p is not None:
                if isinstance(p, ast.Try):
                    if any(child is x or any(child is y for y in ast.walk(x)) for x in p.finalbody):
                        restored = True      # this call IS the restoring one
                        break
                    if any(isinstance(c, ast.Call) and ast.unparse(c.func) == name for x in p.finalbody for c in ast.walk(x)):
                        restored = True
                        break
                if isinstance(p, (ast.FunctionDef, ast.AsyncFunctionDef)):
                    # a setter directly in front of a try/finally that restores it (the usual shape: set; try: ...; finally: restore)
                    body = p.body
                    for i, st in enumerate(body):
                        if any(n is y for y in ast.walk(st)):
                            nxt = body[i + 1] if i + 1 < len(body) else None
                            if isinstance(nxt, ast.Try) and any(isinstance(c, ast.Call) and ast.unparse(c.func) == name for x in nxt.finalbody for c in ast.walk(x)):
                                restored = True
                    break
                child, p = p, parents.get(p)
            out.append((ast.unparse(n)[:80], restored, n.lineno))
    return out


def _process_state_is_restored(ctx, rep, tier):
    """C20.g: a compilation does not leave process-wide interpreter settings changed - not on the failing way out either. A recursion limit raised for one
    compilation and restored only on success makes the verdict for the next program in the same process depend on what failed before it."""
    rep.rule("C20.g", "process-wide interpreter settings (recursion limit, switch interval, cwd, locale, gc, warnings filters, rlimits) are not changed by the compiler, or "
                      "restored in a `finally`: what was compiled - or failed to compile - earlier in the process does not change a later verdict")
    found = process_state_changes(ctx.model.tree)
    for src, restored, line in found:
        rep.check(restored, "C20.g", "<module>", f"{src}", f"`{src}` changes a process-wide setting and is not restored on every way out (no try/finally calling the setter again): after a failed "
                  "compilation the next one in the same process runs under different limits - a program refused when compiled first is accepted when compiled second", line=line)
    # the detector itself: a positive example that must be recognised on every run (the clean tree has no instance)
    fixture = ast.parse("import sys\ndef wrapper(f):\n    old = sys.getrecursionlimit()\n    sys.setrecursionlimit(old + 1500)\n    r = f()\n    sys.setrecursionlimit(old)\n    return r\n"
                        "def wrapper2(f):\n    old = sys.getrecursionlimit()\n    sys.setrecursionlimit(old + 1500)\n    try:\n        return f()\n    finally:\n        sys.setrecursionlimit(old)\n")
    fx = process_state_changes(fixture)
    if [r for _, r, _ in fx] != [False, False, True, True]:
        raise AnalysisError(f"C20.g: the detector does not classify its fixture as expected ({fx})")
    if not found:
        rep.ok("C20.g", "<module>", "no call changes a process-wide interpreter setting (detector verified on its fixture)")


_run_g20pre = run


def run(ctx, rep, tier):
    _run_g20pre(ctx, rep, tier)
    _process_state_is_restored(ctx, rep, tier)


_run_r6 = run


def run(ctx, rep, tier):
    _run_r6(ctx, rep, tier)
    from .shared import delegate
    delegate(ctx, rep, tier, "C09", ("C09.c",), "C20.h", "a tie between the best finishers of a greedy case is refused, never resolved by the iteration order of a set of identity-hashed machines")
    delegate(ctx, rep, tier, "C19", ("C19.a", "C19.b"), "C20.i", "resolving the options never writes to the class-level tables it reads (level sets, defaults): a later compilation in the same process starts from the same tables")
