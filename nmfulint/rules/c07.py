"""C07 - a compiled regular expression accepts exactly its language (DESIGN.md section 3, C07)."""
import ast, re, string
from ..core import AnalysisError
from ..srcmodel import walk_no_nested, calls_in, strip_doc, raised_class
from ..dispatch import dispatch_on, isinstance_chain, arms_all_leave
from ..evalx import VennEval, VClass, A_MASK, B_MASK, U_MASK, fold_function, FoldError

EXPLANATION = (
    "Language equality (Thompson construction, subset construction, partition refinement, class splitting) is the "
    "correctness of graph algorithms and is NOT decided. Decided: C07.a the character-class algebra is exact - "
    "isdisjoint / split / union / empty / invert of RegexCharClass and InvertedRegexCharClass satisfy their set-algebra "
    "specifications in all four class-kind combinations, decided exactly by interpreting the method bodies over the "
    "Boolean algebra of Venn regions of two sets for every inhabitation pattern of the four regions (complete for "
    "two-variable set identities; `len(x) >= 256` read as 'x is the universe'). C07.b the class-escape table and the "
    "quantifier table agree with the grammar's terminals and with the ASCII meaning of \\w \\d \\s \\n \\t \\r. C07.c "
    "parse-tree dispatches are total over the grammar's regex labels (text and binary), and the NFA builder handles "
    "every node class the interpreter constructs. C07.d inverted classes exclude end-of-input. C07.e repeat desugaring "
    "shapes ({n}, {n,m}, {n,}, +). C07.f set ranges include both end points; raw/escaped/binary atoms denote their byte.")
NOT_DECIDED = "NFA construction, subset construction, minimisation, disjoint-class splitting loop, lowering to machine states: language equality itself"
ENGINES = ["E1 source model", "E2 grammar model", "E3 dispatch", "E4 Venn-region evaluator"]


def popcount_regions(I):
    return [r for r in range(4) if I & (1 << r)]


def run(ctx, rep, tier):
    model, g = ctx.model, ctx.grammar

    # ------------------------------------------------------------------ C07.a class algebra
    rep.rule("C07.a", "RegexCharClass / InvertedRegexCharClass: isdisjoint, split, union, empty, invert meet their set-algebra specification "
                      "for all sets (all 16 inhabitation patterns of the Venn regions x 4 kind combinations)")
    kinds = (("pos", "RegexCharClass"), ("neg", "InvertedRegexCharClass"))
    n_id = 0
    failures = {}
    for I in range(16):                       # inhabited regions = universe
        ve = VennEval(model, U=I)
        for k1, c1 in kinds:
            for k2, c2 in kinds:
                X, Y = VClass(k1, A_MASK & I), VClass(k2, B_MASK & I)
                dx, dy = X.denotes(I), Y.denotes(I)
                combo = f"{c1} x {c2}"

                def rec(name, ok, detail):
                    nonlocal n_id
                    n_id += 1
                    if not ok:
                        failures.setdefault((name, combo), detail + f" [regions inhabited: {popcount_regions(I)}]")
                r = ve.run_method(c1, "isdisjoint", X, Y)
                both_inverted = k1 == k2 == "inv" or (c1 == c2 == "InvertedRegexCharClass")
                if both_inverted:
                    # a DFA state can carry one inverted set only (its Else): two inverted sets must always be split, i.e. never be reported disjoint (C07.f)
                    rec("isdisjoint", r is False, f"isdisjoint returned {r} for two inverted sets: both would stay in the regex alphabet and the second overwrites the first in _create_dfa_state")
                else:
                    rec("isdisjoint", r is ((dx & dy) == 0), f"isdisjoint returned {r}, sets {'are' if (dx & dy) == 0 else 'are not'} disjoint")
                r = ve.run_method(c1, "split", X, Y)
                if not (isinstance(r, tuple) and len(r) == 3 and all(isinstance(v, VClass) for v in r)):
                    rec("split", False, f"split returned {r!r}")
                else:
                    o, s, t = (v.denotes(I) for v in r)
                    rec("split.overlap", o == (dx & dy), f"overlap denotes {o:04b}, expected {(dx & dy):04b}")
                    rec("split.self_only", s == (dx & ~dy & I), f"self-without-overlap denotes {s:04b}, expected {(dx & ~dy & I):04b}")
                    rec("split.other_only", t == (dy & ~dx & I), f"other-without-overlap denotes {t:04b}, expected {(dy & ~dx & I):04b}")
                r = ve.run_method(c1, "union", X, Y)
                rec("union", isinstance(r, VClass) and r.denotes(I) == (dx | dy), f"union denotes {r.denotes(I) if isinstance(r, VClass) else r!r:}, expected {(dx | dy):04b}")
            r = ve.run_method(c1, "empty", X)
            rec = None
            n_id += 1
            if r is not (dx == 0):
                failures.setdefault(("empty", c1), f"empty() returned {r} for a class denoting {dx:04b} [regions inhabited: {popcount_regions(I)}]")
            r = ve.run_method(c1, "invert", X)
            n_id += 1
            if not (isinstance(r, VClass) and r.denotes(I) == (I & ~dx)):
                failures.setdefault(("invert", c1), f"invert() denotes {r.denotes(I) if isinstance(r, VClass) else r!r}, expected complement [regions inhabited: {popcount_regions(I)}]")
    for (name, combo), detail in sorted(failures.items()):
        owner = combo.split(" x ")[0]
        rep.bad("C07.a", f"{owner}.{name.split('.')[0]}", f"{name}: {combo}", detail)
    if not failures:
        rep.ok("C07.a", "RegexCharClass/InvertedRegexCharClass", f"{n_id} identity instances hold", detail={"instances": n_id})
        rep.bulk_ok("C07.a", n_id - 1)
    rep.count("venn_identity_instances", n_id)
    # clone / eq / hash keep kind
    for cls in ("RegexCharClass", "InvertedRegexCharClass"):
        o, f = model.resolve_method(cls, "clone")
        src = ast.unparse(f)
        rep.check(o == cls and f"return {cls}(self.chars)" in src, "C07.a", cls + ".clone", "clone keeps the class kind", f"{cls}.clone resolved in {o}: {src[-60:]}")
    o, f = model.resolve_method("InvertedRegexCharClass", "__eq__")
    rep.check("other.__class__ == self.__class__" in ast.unparse(f), "C07.a", "RegexCharClass.__eq__", "equality distinguishes the class kind", "class equality ignores inversion")

    # ------------------------------------------------------------------ C07.b tables
    rep.rule("C07.b", "class-escape table keys = REGEX_CHARCLASS; upper-case entry = inverted class of its lower-case partner; ASCII meanings; quantifier table = REGEX_OP")
    cc = model.func("RegexMatch._convert_raw_regex_char_class")
    tbls = [n for n in walk_no_nested(cc) if isinstance(n, ast.Dict)]
    if len(tbls) != 1:
        raise AnalysisError("_convert_raw_regex_char_class: table not found")
    tbl = {k.value: v for k, v in zip(tbls[0].keys, tbls[0].values)}
    lang = g.terminal_language("REGEX_CHARCLASS")
    rep.check(set(tbl) == lang, "C07.b", "RegexMatch._convert_raw_regex_char_class", "keys = language of REGEX_CHARCLASS", f"table keys {sorted(tbl)} vs terminal {sorted(lang)}")
    meaning = {"d": set(string.digits), "w": set(string.ascii_letters + string.digits + "_"), "s": set(" \t\n\r\x0b\x0c"), "n": {"\n"}, "t": {"\t"}, "r": {"\r"}, " ": {" "}}

    def entry(k):
        v = tbl.get(k)
        if not (isinstance(v, ast.Call) and isinstance(v.func, ast.Name) and len(v.args) == 1):
            return None, None
        try:
            chars = fold_function(ast.FunctionDef(name="f", args=ast.arguments(posonlyargs=[], args=[], kwonlyargs=[], kw_defaults=[], defaults=[]),
                                                  body=[ast.Return(value=v.args[0])], decorator_list=[]), [])
        except FoldError:
            chars = None
        return v.func.id, (set(chars) if chars is not None else None)
    for k, want in meaning.items():
        kind, chars = entry(k)
        rep.check(kind == "RegexCharClass" and chars == want, "C07.b", "RegexMatch._convert_raw_regex_char_class", f"\\{k!s} = {len(want)} byte(s)",
                  f"\\{k} is {kind} of {sorted(chars) if chars else chars}, expected RegexCharClass of {sorted(want)}")
    for up in "WDS":
        kind, chars = entry(up)
        lk, lchars = entry(up.lower())
        rep.check(kind == "InvertedRegexCharClass" and chars is not None and chars == lchars, "C07.b", "RegexMatch._convert_raw_regex_char_class", f"\\{up} = complement of \\{up.lower()}",
                  f"\\{up} is {kind} of {sorted(chars) if chars else chars}")
    sub = [n for n in walk_no_nested(cc) if isinstance(n, ast.Subscript) and n.value is tbls[0]]
    rep.check(len(sub) == 1 and ast.unparse(sub[0].slice) == "regex_char_class.children[0].value[0]", "C07.b", "RegexMatch._convert_raw_regex_char_class", "indexed by the token's character",
              "class table is indexed differently")
    ipt = model.func("RegexMatch._interpret_parse_tree")
    d = dispatch_on(ipt.body, "tree_data", ctx.module_str_lists())
    arm = d.arm_for("regex_operation")
    if arm is None:
        raise AnalysisError("_interpret_parse_tree: regex_operation arm missing")
    qt = [n for st in arm for n in ast.walk(st) if isinstance(n, ast.Dict)]
    plus = [n for st in arm for n in ast.walk(st) if isinstance(n, ast.Compare) and isinstance(n.comparators[0], ast.Constant) and n.comparators[0].value == "+"]
    ops = set()
    if qt:
        ops |= {k.value for k in qt[0].keys}
        m = {k.value: ast.unparse(v) for k, v in zip(qt[0].keys, qt[0].values)}
        rep.check(m.get("*") == "RegexKleene" and m.get("?") == "RegexOptional", "C07.b", "RegexMatch._interpret_parse_tree", "* -> Kleene, ? -> Optional", f"quantifier table {m}")
    if plus:
        ops.add("+")
    rep.check(ops == g.terminal_language("REGEX_OP"), "C07.b", "RegexMatch._interpret_parse_tree", "quantifiers handled = language of REGEX_OP", f"{sorted(ops)} vs {sorted(g.terminal_language('REGEX_OP'))}")

    # ------------------------------------------------------------------ C07.c dispatch totality
    rep.rule("C07.c", "regex parse-tree dispatches are total over the grammar's labels; the NFA builder handles every node class the interpreter constructs")
    text_labels = g.labels("regex_alternation") | {"regex"}
    bin_labels = g.labels("binary_regex_alternation") | {"binary_regex"}
    stripped = {l[len("binary_"):] if l.startswith("binary_") else l for l in text_labels | bin_labels}
    strip_ok = any(isinstance(n, ast.If) and "startswith('binary_')" in ast.unparse(n.test) for n in walk_no_nested(ipt))
    handled = d.handled()
    missing = stripped - handled
    rep.check(strip_ok and not missing, "C07.c", "RegexMatch._interpret_parse_tree", f"handles {len(stripped)} labels (binary_ prefix stripped)",
              f"labels the grammar can produce but the interpreter does not handle: {sorted(missing)} (residual arm: {d.residual})")
    for cls, labs in (("RegexMatch", text_labels), ("BinaryRegexMatch", bin_labels)):
        f = model.func(cls + "._visit_all_char_classes")
        dd = dispatch_on(f.body, "regex_tree.data", ctx.module_str_lists())
        need = labs - {"regex_set_range", "binary_regex_set_range"}
        missing = need - dd.handled()
        rep.check(not missing and arms_all_leave(dd), "C07.c", cls + "._visit_all_char_classes", f"handles {len(need)} labels",
                  f"labels not handled (the function then falls off its end and returns None): {sorted(missing)}")
    # set elements
    for cls, nt, rng in (("RegexMatch", "regex_set_element", "regex_set_range"), ("BinaryRegexMatch", "binary_regex_set_element", "binary_regex_set_range")):
        items = g.data(nt)
        f = model.func(cls + "._visit_all_char_classes")
        src = ast.unparse(f)
        toks = {i for i in items if i.startswith("TOKEN:")}
        labs = {i for i in items if not i.startswith("TOKEN:")}
        ok = "isinstance(child, lark.Token)" in src and f"child.data == '{rng}'" in src
        others = labs - {rng}
        if others:
            ok = ok and re.search(r"else:\s+new_set = self\._convert_raw_regex_char_class\(child\)", src) is not None and others == {"regex_char_class"}
        rep.check(ok, "C07.c", cls + "._visit_all_char_classes", f"set elements {sorted(items)} all handled", f"set element kinds {sorted(items)} are not all handled")
    nfa = model.func("RegexMatch._convert_to_nfa")
    arms, resid = isinstance_chain(nfa.body, "r")
    handled_cls = {c for cl, _ in arms for c in cl}
    constructed = set()
    for q in ("RegexMatch._interpret_parse_tree", "RegexMatch._simplify_regex_tree", "RegexMatch._make_disjoint_groupings", "RegexMatch._visit_all_char_classes",
              "RegexMatch._convert_raw_regex_unimportant", "RegexMatch._convert_raw_regex_char_class", "BinaryRegexMatch._visit_all_char_classes", "BinaryRegexMatch._convert_raw_regex_unimportant"):
        for c in calls_in(model.func(q)):
            if isinstance(c.func, ast.Name) and c.func.id.startswith("Regex") and c.func.id in model.classes:
                constructed.add(c.func.id)
    constructed |= {"InvertedRegexCharClass"}
    for c in sorted(constructed):
        rep.check(any(model.is_subclass(c, h) for h in handled_cls), "C07.c", "RegexMatch._convert_to_nfa", f"handles {c}",
                  f"{c} nodes can be constructed but the NFA builder has no arm for them (residual: {resid})")

    # ------------------------------------------------------------------ C07.d End excluded from inverted classes
    rep.rule("C07.d", "inverted classes (and the wildcard) route excluded characters | {End} to the no-match path, unconditionally")
    cds = model.func("RegexMatch._create_dfa_state")
    branch = next((n for n in walk_no_nested(cds) if isinstance(n, ast.If) and "isinstance(source, InvertedRegexCharClass)" in ast.unparse(n.test)), None)
    if branch is None:
        raise AnalysisError("anchor lost: inverted-class branch of _create_dfa_state")
    found = any(isinstance(st, ast.Assign) and isinstance(st.targets[0], ast.Subscript) and ast.unparse(st.targets[0].value) == "new_transitions" and
                "source.chars" in ast.unparse(st.targets[0].slice) and "DFTransition.End" in ast.unparse(st.targets[0].slice) and ast.unparse(st.value).startswith("(else_path,")
                for st in branch.body)
    rep.check(found, "C07.d", "RegexMatch._create_dfa_state", "chars | {End} -> else_path on every path of the inverted branch",
              "an inverted class / wildcard no longer excludes end-of-input on every path")
    els = next((st for st in branch.body if isinstance(st, ast.Assign) and "DFTransition.Else" in ast.unparse(st.targets[0])), None)
    rep.check(els is not None and "self._create_dfa_state(target" in ast.unparse(els.value), "C07.d", "RegexMatch._create_dfa_state", "everything else -> target", "inverted class Else target changed")
    pos = branch.orelse
    ok = any(isinstance(st, ast.Assign) and ast.unparse(st.targets[0]) == "new_transitions[source.chars]" for st in pos)
    rep.check(ok, "C07.d", "RegexMatch._create_dfa_state", "positive class -> exactly its characters", "positive class lowering changed")

    # ------------------------------------------------------------------ C07.e repeat desugaring
    rep.rule("C07.e", "{n} -> n copies; {n,m} -> n copies then m-n optionals; {n,} -> n copies then a star; + -> one copy then a star")
    def arm_src(label):
        a = d.arm_for(label)
        if a is None:
            raise AnalysisError(f"_interpret_parse_tree: no arm for {label}")
        return "\n".join(ast.unparse(s) for s in a)
    CNT = r"(?:int\(regex_tree\.children\[%d\]\.value\)|self\._repeat_count\(regex_tree\.children\[%d\]\))"
    cnt1 = lambda src: re.search(CNT % (1, 1), src) is not None
    s = arm_src("regex_exact_repeat")
    rep.check(cnt1(s) and re.search(r"RegexSequence\(itertools\.repeat\((\w+), (\w+)\)\)", s) is not None, "C07.e", "RegexMatch._interpret_parse_tree",
              "{n}: n copies", "exact repeat desugaring changed")
    s = arm_src("regex_at_least_repeat")
    rep.check(re.search(r"RegexSequence\(\[(\w+) for \w+ in range\((\w+)\)\] \+ \[RegexKleene\(\1\)\]\)", s) is not None and cnt1(s), "C07.e",
              "RegexMatch._interpret_parse_tree", "{n,}: n copies then a star", "at-least repeat desugaring changed")
    s = arm_src("regex_range_repeat")
    m = re.search(r"itertools\.chain\(itertools\.repeat\((\w+), (\w+)\), itertools\.repeat\(RegexOptional\(\1\), (\w+) - \2\)\)", s)
    mins = re.search(r"(\w+) = " + CNT % (1, 1), s)
    maxs = re.search(r"(\w+) = " + CNT % (2, 2), s)
    rep.check(bool(m and mins and maxs and m.group(2) == mins.group(1) and m.group(3) == maxs.group(1)), "C07.e", "RegexMatch._interpret_parse_tree",
              "{n,m}: n copies then m-n optionals", "range repeat desugaring changed (count of copies / optionals, or which bound is which)")
    s = arm_src("regex_operation")
    rep.check(re.search(r"RegexSequence\(\((\w+), RegexKleene\(\1\)\)\)", s) is not None and "regex_tree.children[1].value == '+'" in s, "C07.e", "RegexMatch._interpret_parse_tree",
              "+: one copy then a star", "+ desugaring changed")
    s = arm_src("regex_alternation")
    rep.check("RegexAlternation(" in s and "regex_tree.children" in s, "C07.e", "RegexMatch._interpret_parse_tree", "alternation over all branches", "alternation construction changed")
    s = arm_src("regex_group")
    rep.check("RegexSequence(" in s and "regex_tree.children" in s, "C07.e", "RegexMatch._interpret_parse_tree", "sequence over all elements in order", "sequence construction changed")
    rs = ast.unparse(model.func("RegexSequence.__init__"))
    rep.check(model.has("RegexSequence.__init__", "self.sub_matches = list(sub_matches)"), "C07.e", "RegexSequence.__init__", "sequence keeps order", "RegexSequence no longer keeps its elements in order")

    # ------------------------------------------------------------------ C07.i counts and ranges are validated (F-86)
    rep.rule("C07.i", "repetition counts are non-negative and ranges ordered: the number terminal admits a sign, so every count passes through the refusing converter; {n,m} with m < n and "
                      "a set range whose end precedes its start are refused")
    ipt = model.func("RegexMatch._interpret_parse_tree")
    raw_counts = [n for n in ast.walk(ipt) if isinstance(n, ast.Call) and ast.unparse(n.func) == "int" and "regex_tree.children" in ast.unparse(n)]
    rc = model.functions.get("RegexMatch._repeat_count")
    rc_ok = rc is not None and any(isinstance(i, ast.If) and re.fullmatch(r"(\w+) < 0", ast.unparse(i.test)) and isinstance(i.body[-1], ast.Raise) and model.is_subclass(raised_class(i.body[-1]) or "", "NMFUError")
                                   for i in ast.walk(rc))
    rep.check(not raw_counts and rc_ok, "C07.i", "RegexMatch._interpret_parse_tree", "counts are converted by _repeat_count, which refuses negative values",
              f"{len(raw_counts)} repetition count(s) are read with a bare int(): the number terminal admits a sign, `/a{{-1}}/` then matches the empty string and `/a{{-2,1}}/` matches `aaa`",
              line=(raw_counts[0].lineno if raw_counts else ipt.lineno))
    s = arm_src("regex_range_repeat")
    rep.check(bool(mins and maxs) and re.search(r"if %s < %s:\n\s+raise IllegalParseTree" % (maxs.group(1) if maxs else "?", mins.group(1) if mins else "?"), s) is not None, "C07.i",
              "RegexMatch._interpret_parse_tree", "{n,m}: m < n is refused", "`/a{2,1}/` is accepted and matches `aa`: itertools.repeat with a negative count yields nothing, so the upper bound is ignored")
    for cls in ("RegexMatch", "BinaryRegexMatch"):
        src = ast.unparse(model.func(cls + "._visit_all_char_classes"))
        rep.check(re.search(r"if ord\(end\) < ord\(start\):\n\s+raise IllegalParseTree", src) is not None, "C07.i", cls + "._visit_all_char_classes", "a reversed set range is refused",
                  "a reversed range inside a set (`[z-ab]`) silently contributes nothing")

    # ------------------------------------------------------------------ C07.f atoms and ranges
    rep.rule("C07.f", "set ranges include both end points; raw / escaped / binary atoms denote their byte")
    for cls in ("RegexMatch", "BinaryRegexMatch"):
        f = model.func(cls + "._visit_all_char_classes")
        rngs = [c for c in calls_in(f, nested=False) if isinstance(c.func, ast.Name) and c.func.id == "range" and len(c.args) == 2]
        ok = len(rngs) == 1 and ast.unparse(rngs[0].args[0]) == "ord(start)" and ast.unparse(rngs[0].args[1]) == "ord(end) + 1"
        rep.check(ok, "C07.f", cls + "._visit_all_char_classes", "range a-b = ord(a)..ord(b) inclusive", f"set range is {[ast.unparse(r) for r in rngs]}: an end point is lost or added")
        src = ast.unparse(f)
        rep.check("start = list(self._convert_raw_regex_unimportant(child.children[0]).chars)[0]" in src and "end = list(self._convert_raw_regex_unimportant(child.children[1]).chars)[0]" in src,
                  "C07.f", cls + "._visit_all_char_classes", "range end points from children[0], children[1]", "range end points changed")
        rep.check("incoming_set = incoming_set.union(new_set)" in src and "incoming_set.invert()" in src and re.search(r"inverted = regex_tree\.data != '(binary_)?regex_set'", src) is not None,
                  "C07.f", cls + "._visit_all_char_classes", "set = union of its elements; [^..] inverts it", "set accumulation changed")
    ru = ast.unparse(model.func("RegexMatch._convert_raw_regex_unimportant"))
    rep.check(model.has("RegexMatch._convert_raw_regex_unimportant", "regex_tree.value[0] == '\\\\'") and model.has("RegexMatch._convert_raw_regex_unimportant", "RegexCharClass((regex_tree.value[1],))") and model.has("RegexMatch._convert_raw_regex_unimportant", "RegexCharClass((regex_tree.value[0],))"), "C07.f",
              "RegexMatch._convert_raw_regex_unimportant", "escaped char -> the char after the backslash, else the char", "raw regex atom decoding changed")
    bu = ast.unparse(model.func("BinaryRegexMatch._convert_raw_regex_unimportant"))
    rep.check(model.has("BinaryRegexMatch._convert_raw_regex_unimportant", "RegexCharClass((chr(int(byte.value, base=16)),))"), "C07.f", "BinaryRegexMatch._convert_raw_regex_unimportant", "hex pair -> that byte", "binary regex byte decoding changed")
    rep.check(g.terminal_regex("REGEX_BYTE") == "[0-9a-fA-F]{2}", "C07.f", "grammar:REGEX_BYTE", "two hex digits", "REGEX_BYTE terminal changed")


# ---------------------------------------------------------------------------------------------------------------- C07.f / g / h
def _alphabet_and_simplifier(ctx, rep, tier):
    import ast, re
    from ..srcmodel import walk_no_nested, raised_class
    model = ctx.model
    # C07.f one inverted class per alphabet
    rep.rule("C07.f", "the regex alphabet holds at most one inverted class: two inverted sets are never reported disjoint (C07.a), every non-disjoint pair is split, "
                      "split(inverted, inverted) yields one inverted and two plain classes, empty pieces are dropped")
    g = "RegexMatch._make_disjoint_groupings"
    ok = model.has(g, "if not a.isdisjoint(b):\n    ...\n    overlap, newa, newb = a.split(b)\n    ...") and \
        model.has(g, "total_char_classes[ia] = newa\ntotal_char_classes[ib] = newb") and model.has(g, "total_char_classes.append(overlap)")
    rep.check(ok, "C07.f", g, "every pair that is not reported disjoint is replaced by (overlap, a-only, b-only)", "splitting loop of the class grouping changed")
    ret = [n for n in walk_no_nested(model.func(g)) if isinstance(n, ast.Return)]
    rep.check(len(ret) == 1 and "if not total_char_classes[i].empty()" in ast.unparse(ret[0]), "C07.f", g, "empty pieces are dropped from the alphabet", "empty classes reach the NFA alphabet")
    sp = model.func("InvertedRegexCharClass.split")
    arm = next((n for n in sp.body if isinstance(n, ast.If) and ast.unparse(n.test) == "isinstance(other, InvertedRegexCharClass)"), None)
    okk = arm is not None and isinstance(arm.body[-1], ast.Return) and isinstance(arm.body[-1].value, ast.Tuple) and \
        [ast.unparse(e.func) if isinstance(e, ast.Call) else "?" for e in arm.body[-1].value.elts] == ["InvertedRegexCharClass", "RegexCharClass", "RegexCharClass"]
    rep.check(okk, "C07.f", "InvertedRegexCharClass.split", "split of two inverted sets: one inverted overlap, two plain remainders", "splitting two inverted sets no longer reduces the number of inverted classes: "
              "the grouping loop may not terminate / several inverted classes reach one DFA state")
    # C07.g empty sets refused
    rep.rule("C07.g", "a bracket set that matches nothing ([z-a], [^\\w\\W], b/[^00-ff]/) is refused: the states leading to it would report the mismatch late")
    for q in ("RegexMatch._visit_all_char_classes", "BinaryRegexMatch._visit_all_char_classes"):
        ok = model.has(q, "if inverted:\n    incoming_set = incoming_set.invert()\nif incoming_set.empty():\n    raise IllegalParseTree($$m, regex_tree)\nreturn set((incoming_set,))")
        rep.check(ok, "C07.g", q, "set branch: invert if needed, refuse when empty, else return the class", "an empty character set is compiled into an alternation without branches: the dead states before it "
                  "report the mismatch one byte late or only at end-of-input")
    # C07.h simplifier
    rep.rule("C07.h", "the regex tree simplifier only maps itself over children and unwraps singleton alternations / sequences (no member is ever dropped)")
    q = "RegexMatch._simplify_regex_tree"
    fn = model.func(q)
    assigns = [n for n in walk_no_nested(fn) if isinstance(n, ast.Assign) and any("sub_match" in ast.unparse(t) for t in n.targets)]
    allowed = {"r.sub_matches = [self._simplify_regex_tree(x) for x in r.sub_matches]", "r.sub_match = self._simplify_regex_tree(r.sub_match)"}
    bad = [ast.unparse(a) for a in assigns if ast.unparse(a) not in allowed]
    rep.check(not bad and len(assigns) == 2, "C07.h", q, "children are only replaced by their simplification", f"the simplifier rewrites members beyond simplification: {bad[:2]} - dropping an empty "
              "sequence from an alternation removes the empty string from the language (`/(a{0}|b)c/` rejects `c`)")
    rets = sorted(ast.unparse(n) for n in walk_no_nested(fn) if isinstance(n, ast.Return))
    rep.check(rets == sorted(["return r", "return r", "return r", "return r.sub_matches[0]"]) and model.has(q, "if len(r.sub_matches) == 1:\n    return r.sub_matches[0]"), "C07.h", q,
              "only a singleton alternation / sequence is unwrapped", f"simplifier returns {rets}")


_run_f = run


def run(ctx, rep, tier):
    _run_f(ctx, rep, tier)
    _alphabet_and_simplifier(ctx, rep, tier)


# ---------------------------------------------------------------------------------------------------------------- C07.j / C07.k
def _thompson_fragments(ctx, rep, tier):
    """C07.j (E11, nmfulint/thompson.py): every arm of the regex -> NFA construction builds a fragment whose language is the operator's, and keeps the invariants the
    construction composes by. C07.k: the epsilon closure is a pure function of the automaton."""
    from .. import thompson
    model = ctx.model
    q = "RegexMatch._convert_to_nfa"
    rep.rule("C07.j", "each arm of the Thompson construction, executed symbolically (fresh states, sub-expressions as atomic edges, two sub-expressions per n-ary node): "
                      "the words from the given start to the returned end are exactly the operator's (class r; M1|M2; M1 M2; eps|M1; M1*), no state is the origin of two labelled "
                      "edges / sub-fragments (one target per symbol), the returned end has no edge of its own, every created state joins the automaton")
    res = thompson.analyse(model, q)
    kinds = set()
    for cls, kind, frag, probs in res:
        kinds.add(kind)
        if probs:
            for code, msg in probs:
                rep.bad("C07.j", q, f"arm {cls} ({kind}): {code}", msg + f" [fragment: {', '.join(f'{s}-{l}->{d}' for s, l, d in frag.edges)}; returns {frag.returned}]")
        else:
            rep.ok("C07.j", q, f"arm {cls} ({kind}): language, one claim per state, clean end, states added [{len(frag.edges)} edges]")
    missing = {"class", "alternation", "sequence", "optional", "star"} - kinds
    if missing:
        raise AnalysisError(f"C07.j: no arm of _convert_to_nfa for {sorted(missing)}")
    # the one-target-per-symbol fact the claim clause rests on
    tr = model.func("RegexNFState.transition")
    rep.check(model.has("RegexNFState.transition", "if symbol == RegexNFState.Epsilon:\n    self.epsilon_moves.add(target)\nelse:\n    self.transitions[symbol] = target"), "C07.j", "RegexNFState.transition",
              "epsilon moves accumulate in a set; a labelled transition is one target per symbol", "how an NFA state stores its moves changed: re-derive the claim clause of C07.j")

    rep.rule("C07.k", "RegexNFState.epsilon_closure is a pure function of the automaton: it stores nothing on the state (the recursion cuts cycles with the caller's visited "
                      "set, so an inner result is partial by design: cached, it is wrong for the next caller) and returns every state reachable by epsilon moves")
    ec = model.func("RegexNFState.epsilon_closure")
    stores = [ast.unparse(n) for n in ast.walk(ec) if isinstance(n, (ast.Assign, ast.AugAssign, ast.AnnAssign))
              for t in (n.targets if isinstance(n, ast.Assign) else [n.target]) if isinstance(t, (ast.Attribute, ast.Subscript))]
    reads_cache = [ast.unparse(n) for n in ast.walk(ec) if isinstance(n, ast.Return) and n.value is not None and isinstance(n.value, ast.Attribute)]
    rep.check(not stores and not reads_cache, "C07.k", "RegexNFState.epsilon_closure", "no store to the state, no cached result returned",
              f"epsilon_closure keeps state ({(stores + reads_cache)[:2]}): a closure computed inside another one stops at the states that one has already visited - cached, the partial set is "
              "handed to every later caller and the subset construction loses NFA states (`(a|b)*c` style expressions stop matching)")
    ok = model.has("RegexNFState.epsilon_closure", "total_moves = set((self,))") and \
        model.has("RegexNFState.epsilon_closure", "for move in self.epsilon_moves:\n    total_moves.add(move)\n    if move in visited:\n        continue\n    visited.add(move)\n    total_moves |= move.epsilon_closure(visited)")
    rep.check(ok, "C07.k", "RegexNFState.epsilon_closure", "closure = the state itself, every epsilon successor, and (once per state) the closure of each successor",
              "the epsilon closure no longer collects the state, all its epsilon successors and their closures")


_run_j07 = run


def run(ctx, rep, tier):
    _run_j07(ctx, rep, tier)
    _thompson_fragments(ctx, rep, tier)


# ---------------------------------------------------------------------------------------------------------------- C07.l
def _subset_construction_obligations(ctx, rep, tier):
    """C07.l: the NFA -> DFA conversion is the textbook subset construction; each of its obligations is a necessary condition of language equality and is visible in the
    shape of `RegexNFA.convert_to_dfa` (locals match as metavariables)."""
    model = ctx.model
    q = "RegexNFA.convert_to_dfa"
    fn = model.func(q)
    rep.rule("C07.l", "subset construction: the start subset is the epsilon closure of the start state; for every processed subset and every symbol of the alphabet the successor "
                      "is the epsilon closure of ALL moves of ALL member states; a subset is finishing iff it contains the finishing state (start subset included); every non-empty "
                      "move is recorded as a transition of the processed subset; new subsets are queued once")
    obl = [
        ("start subset = epsilon closure of the start state",
         model.has(q, "start_dfa_state = frozenset((get_index(x) for x in self.start_state.epsilon_closure()))"),
         "the start subset is no longer the epsilon closure of the NFA's start state: expressions that begin with an optional / starred / alternated part lose their first step"),
        ("the start subset is tested for the finishing state",
         model.has(q, "start_dfa_state = frozenset((get_index(x) for x in self.start_state.epsilon_closure()))\n...\nif finishing_idx in start_dfa_state:\n    target_dfa.mark_finishing(visited_states[start_dfa_state])\n..."),
         "the start subset is not marked finishing when it contains the finishing state: expressions that match the empty string never finish there"),
        ("every new subset is tested for the finishing state",
         model.has(q, "if finishing_idx in new_state:\n    target_dfa.mark_finishing(visited_states[new_state])"),
         "new subsets are no longer marked finishing by membership of the finishing state"),
        ("successor = epsilon closure of the move set, for every symbol of the alphabet",
         model.has(q, "for potential_move in alphabet:\n    move_result, move_meta = moves(processing, potential_move)\n    if move_result:\n        new_state = epsilon_closure(move_result)\n        ..."),
         "the successor subset is not the epsilon closure of the moves on that symbol, or not every symbol of the alphabet is tried"),
        ("a new subset is created and queued once",
         model.has(q, "if new_state not in visited_states:\n    visited_states[new_state] = RegexNFState()\n    ...\n    to_process.put(new_state)"),
         "a subset met for the first time is not (only) created and queued then"),
        ("every non-empty move becomes a transition of the processed subset",
         model.has(q, "visited_states[processing].transition(potential_move, visited_states[new_state])"),
         "the transition of the processed subset on the symbol is not recorded for every non-empty move"),
        ("every subset becomes a state of the result",
         model.has(q, "for i in visited_states.values():\n    target_dfa.add(i)"),
         "not every subset found is added to the resulting automaton"),
    ]
    for what, ok, msg in obl:
        rep.check(bool(ok), "C07.l", q, what, msg)
    mv = model.functions.get(q + ".moves")
    ok = mv is not None and model.has(q + ".moves", "for i in states:\n    if on in self.states[i].transitions:\n        results.add(get_index(self.states[i].transitions[on]))\n        ...") and \
        not any(isinstance(n, (ast.Break, ast.Continue)) for n in ast.walk(mv)) and sum(isinstance(n, ast.Return) for n in ast.walk(mv)) == 1
    rep.check(ok, "C07.l", q + ".moves", "the move set collects the target of EVERY member state that has the symbol (no early exit)",
              "the move set of a subset no longer collects over all its member states: NFA branches are dropped from the subset (`/ab|ac/`-style prefixes)")
    ec = model.functions.get(q + ".epsilon_closure")
    ok = ec is not None and model.has(q + ".epsilon_closure", "for i in states:\n    total |= set((get_index(x) for x in self.states[i].epsilon_closure()))") and \
        not any(isinstance(n, (ast.Break, ast.Continue)) for n in ast.walk(ec))
    rep.check(ok, "C07.l", q + ".epsilon_closure", "the closure of a subset is the union of the closures of all its members", "the closure of a move set is not the union over all its members")
    loop = [n for n in ast.walk(fn) if isinstance(n, ast.While)]
    rep.check(len(loop) == 1 and ast.unparse(loop[0].test) == "not to_process.empty()" and not any(isinstance(n, ast.Break) for n in ast.walk(loop[0])), "C07.l", q,
              "the worklist is processed until it is empty", "the worklist loop of the subset construction ends early")


_run_l07 = run


def run(ctx, rep, tier):
    _run_l07(ctx, rep, tier)
    _subset_construction_obligations(ctx, rep, tier)


# ---------------------------------------------------------------------------------------------------------------- C07.m
def _minimisation_obligations(ctx, rep, tier):
    """C07.m: minimisation is partition refinement; merging two states is only sound if they agree on finishing and, for every symbol, move into the same block
    (or both have no move). Each obligation is a necessary condition of language equality."""
    model = ctx.model
    q = "RegexNFA.minimize_dfa"
    fn = model.func(q)
    rep.rule("C07.m", "minimisation: the initial partition separates finishing from non-finishing states; a block is split on the first symbol of the alphabet on which two of "
                      "its states move into different blocks (no move = its own answer); refinement runs to a fixed point; the rebuilt automaton takes finishing, the "
                      "transitions and the start from the blocks of the original's")
    obl = [
        ("initial partition by finishing / non-finishing", q + ".initial_partition",
         "for state in self.states:\n    if state in self.finishing_states:\n        T[True].add(state)\n    else:\n        T[False].add(state)\nreturn set((frozenset(x) for x in T.values()))",
         "finishing and non-finishing states start in one block: the minimised matcher accepts where the expression does not finish"),
        ("two states stay together on a symbol iff they move into the same block (absent move = None block)", q + ".split.splits",
         "expected = state.transitions.get(c, None)\nexpected = partition_containing(expected)\nfor other in S:\n    actual = other.transitions.get(c, None)\n    actual = partition_containing(actual)\n"
         "    if actual == expected:\n        s1.add(other)\n    else:\n        s2.add(other)",
         "the agreement test of the refinement changed: states that move into different blocks (or one of which has no move) are kept together"),
        ("a block is split as soon as both sides are non-empty", q + ".split.splits", "if s1 and s2:\n    return {frozenset(s1), frozenset(s2)}",
         "a found split is not returned"),
        ("every symbol of the alphabet is tried; the block is kept only if none splits it", q + ".split",
         "for char in alphabet:\n    split = splits(char)\n    if split:\n        return split\nreturn {S}", "not every symbol is tried before a block is declared stable"),
        ("refinement to a fixed point", q, "while P != T:\n    P = T\n    T = set()\n    for p in P:\n        T |= split(p)", "the refinement no longer runs until the partition is stable"),
        ("a rebuilt state finishes iff its block does", q + ".add_back", "state = next(iter(subset))\n...\nif state in self.finishing_states:\n    new_dfa.mark_finishing(new_state)\n...",
         "finishing is not carried over from the block's representative"),
        ("transitions of the representative lead to the rebuilt state of the target's block", q + ".add_back",
         "for character, target in state.transitions.items():\n    target_subset = partition_containing(target)\n    if target_subset not in new_states:\n        add_back(target_subset)\n    new_state.transition(character, new_states[target_subset])\n    ...",
         "the transitions of the rebuilt automaton no longer follow the blocks of the original targets"),
        ("the start state is the block of the original start", q, "new_dfa.start_state = add_back(partition_containing(self.start_state))", "the minimised automaton starts elsewhere"),
    ]
    for what, fq, pat, msg in obl:
        f = model.functions.get(fq)
        rep.check(f is not None and model.has(fq, pat), "C07.m", fq, what, msg if f is not None else f"{fq} not found")
    pc = model.functions.get(q + ".partition_containing")
    rep.check(pc is not None and model.has(q + ".partition_containing", "return next((p for p in P if state in p))"), "C07.m", q + ".partition_containing", "block lookup = the block that contains the state",
              "the block lookup of the refinement changed")


_run_m07 = run


def run(ctx, rep, tier):
    _run_m07(ctx, rep, tier)
    _minimisation_obligations(ctx, rep, tier)



# ---------------------------------------------------------------------------------------------------------------- C07.n
def _set_members_all_united(ctx, rep, tier):
    """C07.n (seed C07-15): a bracket set denotes the union of ALL its members. The accumulation loop unites every member's class into the accumulator,
    unconditionally - a shortcut that skips a member by comparing `.chars` is wrong as soon as one side is an inverted class (there `.chars` are the
    excluded bytes): `[\\Wa]` then refuses 'a'."""
    import ast
    from ..srcmodel import walk_no_nested
    model = ctx.model
    rep.rule("C07.n", "a bracket set is the union of all its members: the accumulation loop unites every member unconditionally (no skip, no early exit)")
    n = 0
    for q in ("RegexMatch._visit_all_char_classes", "BinaryRegexMatch._visit_all_char_classes"):
        fn = model.func(q)
        for lp in [x for x in walk_no_nested(fn) if isinstance(x, ast.For)]:
            unions = [st for st in ast.walk(lp) if isinstance(st, ast.Assign) and isinstance(st.value, ast.Call) and isinstance(st.value.func, ast.Attribute) and st.value.func.attr == "union"
                      and ast.unparse(st.targets[0]) == ast.unparse(st.value.func.value)]
            if not unions or any(isinstance(x, ast.For) and x is not lp and any(u in list(ast.walk(x)) for u in unions) for x in ast.walk(lp)):
                continue
            n += 1
            top = [st for st in lp.body if any(st is u for u in unions)]
            leaves = [x for x in ast.walk(lp) if isinstance(x, (ast.Continue, ast.Break)) or (isinstance(x, ast.Return))]
            rep.check(len(unions) == 1 and len(top) == 1 and not leaves, "C07.n", q, "every member is united into the set",
                      f"the accumulation loop of {q.split('.')[0]} skips members ({'union under a condition' if not top else 'continue / break / return inside the loop'}): a member that is not "
                      "united is lost from the set - for inverted classes a subset test on `.chars` means the opposite (`[\\Wa]` refuses 'a', `[^\\W_]` accepts '_')")
    if n < 2:
        raise AnalysisError(f"C07.n: only {n} set accumulation loops found (floor 2)")


_run_r6 = run


def run(ctx, rep, tier):
    _run_r6(ctx, rep, tier)
    _set_members_all_united(ctx, rep, tier)
