"""C17 - end-of-input handling follows the EOF contract (DESIGN.md section 3, C17)."""
import ast, re
from ..core import AnalysisError
from ..tmpl import transition_body_paths, iter_lines
from ..cevents import events_of
from ..emit import Line, LoopBlock, CallBlock
from ..srcmodel import walk_no_nested, calls_in, is_flag_test, raised_class, strip_doc
from ..dispatch import dispatch_on
from .tbrows import check_row

EXPLANATION = (
    "C17.a: the `end` pattern is refused without EOF_SUPPORT, and end() is declared/defined under that same atom. "
    "C17.b: the byte-test generator never turns End into a data comparison (excluded from equality tests and from the "
    "range scan; an End-only transition contributes no arm to feed). C17.c: data patterns exclude end-of-input - the "
    "inverted-class lowering routes (excluded chars | End) to the no-match path unconditionally (the wildcard is the "
    "inverted empty class, same path), and EndMatch consumes on [End] only. C17.d: end()'s per-state template takes the "
    "state's End move (with the Else fallback), renders it with from_end=True, and then returns DONE iff the state "
    "*reached* is accepting (the target of a taken non-fallthrough move, else the state itself), FAIL otherwise; an "
    "accepting state does not follow an error-handling move. C17.e: end-context transition bodies obey their protocol "
    "rows (no pointer, no OK) and every goto emitted in end() has its label there.")
NOT_DECIDED = "which actions sit on End transitions and which states are accepting (DFA level); end during wait (follows from C16's total retargeting)"
ENGINES = ["E1 source model", "E2 grammar model", "E3 dispatch", "E5 emission-path enumerator", "E6 C-line events"]

ESB = "CodegenCtx._generate_end_switch_body"
GCT = "CodegenCtx._generate_condition_for_transition"


def run(ctx, rep, tier):
    model, E = ctx.model, ctx.emit

    # ------------------------------------------------------------------ C17.a gating
    rep.rule("C17.a", "`end` patterns are refused (IllegalParseTree) unless EOF_SUPPORT; end() exists iff EOF_SUPPORT")
    pm = model.func("ParseCtx._parse_match_expr")
    d = dispatch_on(pm.body, "expr.data", ctx.module_str_lists())
    arm = d.arm_for("end_expr")
    if arm is None:
        raise AnalysisError("_parse_match_expr has no end_expr arm")
    first = arm[0]
    ok = isinstance(first, ast.If) and isinstance(first.test, ast.UnaryOp) and isinstance(first.test.op, ast.Not) and is_flag_test(first.test.operand) == "EOF_SUPPORT" \
        and first.body and isinstance(first.body[-1], ast.Raise) and model.is_subclass(raised_class(first.body[-1]) or "", "NMFUError")
    makes = any(isinstance(n, ast.Call) and isinstance(n.func, ast.Name) and n.func.id == "EndMatch" for st in arm for n in ast.walk(st))
    rep.check(ok and makes, "C17.a", "ParseCtx._parse_match_expr", "end_expr arm gated by EOF_SUPPORT",
              "the `end` pattern is no longer refused with a diagnosed error when EOF support is off (end() would not exist to deliver it)")
    # no other constructor site of EndMatch
    sites = [q for q, f in model.functions.items() for n in walk_no_nested(f) if isinstance(n, ast.Call) and isinstance(n.func, ast.Name) and n.func.id == "EndMatch"]
    rep.check(sites == ["ParseCtx._parse_match_expr"], "C17.a", "EndMatch", "constructed only behind the gate", f"EndMatch constructed in {sites}")
    for q, want in (("CodegenCtx.generate_header", "FUNCDECL"), ("CodegenCtx.generate_source", "CALL")):
        fp = E.enumerate(q)
        good = True
        for p in fp.paths:
            eof = bool(p.atoms.get("F:EOF_SUPPORT"))
            if want == "CALL":
                has = any(isinstance(i, CallBlock) and i.call.callee == "_generate_end_implementation" for i in fp.lines(p))
            else:
                has = any(e.kind == "FUNCDECL" and e.a == "end" for e in events_of([i for i in fp.lines(p) if isinstance(i, Line)], strict=False))
            good = good and (has == eof)
        rep.check(good, "C17.a", q, "end() iff EOF_SUPPORT", "end() is not declared/defined exactly under EOF_SUPPORT")

    # ------------------------------------------------------------------ C17.b End is never a data byte test
    rep.rule("C17.b", "End is excluded from equality tests and from the range scan of _generate_condition_for_transition")
    fn = model.func(GCT)
    eq_calls = [c for c in calls_in(fn, nested=False) if isinstance(c.func, ast.Attribute) and c.func.attr == "_generate_equal_check"]
    if not eq_calls:
        raise AnalysisError("anchor lost: _generate_equal_check call in _generate_condition_for_transition")
    for c in eq_calls:
        comp = None
        n = c
        while n in model.parents:
            n = model.parents[n]
            if isinstance(n, (ast.GeneratorExp, ast.ListComp)):
                comp = n
                break
            if isinstance(n, ast.FunctionDef):
                break
        filt = comp is not None and any(re.search(r"!= DFTransition\.End|is not DFTransition\.End|not in \[DFTransition\.End\]", ast.unparse(i)) for g in comp.generators for i in g.ifs)
        rep.check(filt, "C17.b", GCT, ast.unparse(c), "equality tests are generated for on_values without excluding End: ord(End) / a data test for end-of-input", line=c.lineno)
    src = ast.unparse(fn)
    start_idx = [n for n in walk_no_nested(fn) if isinstance(n, ast.Assign) and isinstance(n.targets[0], ast.Name) and n.targets[0].id == "start_idx"]
    ok = len(start_idx) == 1 and re.fullmatch(r"1 if DFTransition\.End in (\w+) else 0", ast.unparse(start_idx[0].value)) is not None
    rep.check(ok, "C17.b", GCT, "range scan starts after End", "the range scan no longer skips End (sorted first) when it is among the values")
    uses = len(re.findall(r"\bstart_idx\b", src))
    rep.check(uses >= 4 and "range(start_idx + 1" in src and "range_start = start_idx" in src, "C17.b", GCT, "range scan indices derive from start_idx",
              "range scan indices no longer start at start_idx")
    sortk = [c for c in calls_in(fn, nested=False) if isinstance(c.func, ast.Attribute) and c.func.attr == "sort"]
    ok = len(sortk) == 1 and sortk[0].keywords and "isinstance(x, str)" in ast.unparse(sortk[0].keywords[0].value)
    rep.check(ok, "C17.b", GCT, "End sorts before every character", "sort key no longer places End first")
    # feed skips transitions with no byte test (End-only)
    fp = E.enumerate("CodegenCtx._generate_switch_body")
    skip = False
    for p, val, it in iter_lines(fp, with_blocks=True):
        pass
    for p in fp.paths:
        for it in fp.lines(p):
            if isinstance(it, LoopBlock):
                for delta, sub, endk, end in it.bodies:
                    if endk == "continue" and not sub and any(v is False for v in delta.values()):
                        skip = True
    rep.check(skip, "C17.b", "CodegenCtx._generate_switch_body", "a transition without byte tests contributes no arm", "feed no longer skips transitions whose only symbol is End")

    # ------------------------------------------------------------------ C17.c data patterns exclude End
    rep.rule("C17.c", "inverted classes (incl. the wildcard) route excluded-chars | {End} to the no-match path unconditionally; EndMatch consumes on [End] only")
    cds = model.func("RegexMatch._create_dfa_state")
    branch = None
    for n in walk_no_nested(cds):
        if isinstance(n, ast.If) and "isinstance(source, InvertedRegexCharClass)" in ast.unparse(n.test):
            branch = n
    if branch is None:
        raise AnalysisError("anchor lost: inverted-class branch of _create_dfa_state")
    found = False
    for st in branch.body:       # must be a direct child: unconditional within the branch
        if isinstance(st, ast.Assign) and isinstance(st.targets[0], ast.Subscript) and ast.unparse(st.targets[0].value) == "new_transitions":
            key = ast.unparse(st.targets[0].slice)
            valsrc = ast.unparse(st.value)
            if "source.chars" in key and "DFTransition.End" in key and "|" in key and valsrc.startswith("(else_path,"):
                found = True
    rep.check(found, "C17.c", "RegexMatch._create_dfa_state", "inverted class: chars | {End} -> else_path, unconditional",
              "the inverted-class lowering no longer sends (excluded characters | End) to the no-match path on every path: a wildcard / inverted set can match end-of-input")
    vac = [q for q in ("RegexMatch._visit_all_char_classes", "BinaryRegexMatch._visit_all_char_classes")]
    for q in vac:
        f = model.func(q)
        s = ast.unparse(f)
        rep.check(re.search(r"regex_any'\s*:\s*\n?\s*return set\(\(InvertedRegexCharClass\(\(\)\),\)\)", s) is not None or "InvertedRegexCharClass(())" in s,
                  "C17.c", q, "wildcard = inverted empty class", "the wildcard is no longer the inverted empty class (it would bypass the End exclusion)")
    from ..builders import chains_in
    em = model.func("EndMatch.convert")
    chs = [c for c in chains_in(em) if c.root_is_ctor]
    ends = [c for c in chs if c.on_values and "DFTransition.End" in c.on_values and "Else" not in c.on_values]
    elses = [c for c in chs if c.on_values and "DFTransition.Else" in c.on_values]
    accepting = {ast.unparse(c.args[0]) for c in calls_in(em) if isinstance(c.func, ast.Attribute) and c.func.attr == "mark_accepting" and c.args}
    ok = len(chs) == 2 and len(ends) == 1 and len(elses) == 1 and ends[0].to in accepting and not ends[0].truthy("fallthrough") \
        and elses[0].to is not None and "ErrorReasons.NO_MATCH" in elses[0].to and elses[0].truthy("fallthrough") and elses[0].truthy("handles_else")
    rep.check(ok, "C17.c", "EndMatch.convert", "consume on [End] only (to the accepting state); anything else falls through to the no-match handler",
              f"EndMatch no longer matches exactly end-of-input: transitions built = {chs}")

    # ------------------------------------------------------------------ C17.d end() per-state protocol
    rep.rule("C17.d", "end()'s per-state body: take state[End] (Else fallback), render with from_end=True, then DONE iff the state reached is "
                      "accepting; an accepting state does not follow an error-handling move")
    fn = model.func(ESB)
    getter = [n for n in walk_no_nested(fn) if isinstance(n, ast.Subscript) and ast.unparse(n) == "state[DFTransition.End]"]
    rep.check(len(getter) >= 1, "C17.d", ESB, "end move = state[DFTransition.End]", "end() no longer looks up the state's End move through DFState.__getitem__ (Else fallback)")
    gi = model.func("DFState.__getitem__")
    gsrc = ast.unparse(gi)
    rep.check("return self[DFTransition.Else]" in gsrc and "if DFTransition.Else != data" in gsrc, "C17.d", "DFState.__getitem__", "falls back to Else",
              "DFState.__getitem__ no longer falls back to the Else transition")
    fp = E.enumerate(ESB)
    n_taken = n_plain = n_goes_on = 0
    for p in fp.paths:
        items = fp.lines(p)
        if not items and p.end and p.end[0] == "return":
            continue   # condition point: delegated
        v = p.valuation()
        evs = [e for e in events_of(items) if e.kind != "COMMENT"]
        calls = [e for e in evs if e.kind == "CALLBLOCK"]
        rets = [e for e in evs if e.kind == "RET"]
        key = ", ".join(f"{k}={'T' if b else 'F'}" for k, b in sorted(v.items()) if "DFConditionPoint" not in k)
        goes_on = evs and evs[-1].kind == "GOTO" and evs[-1].a == "repeatswitch" and not rets
        if goes_on:
            # F-78: the only tail that is not a return - an `end` pattern matched (End listed by the taken, non-fallthrough move) and the program is not over
            fall = next((b for k, b in v.items() if k.endswith(".is_fallthrough")), None)
            explicit = next((b for k, b in v.items() if k.startswith("DFTransition.End in ") and k.endswith(".on_values")), None)
            tgt = [b for k, b in v.items() if k.endswith(".target in self.dfa.accepting_states")]
            n_goes_on += 1
            errh_g = next((b for k, b in v.items() if k.endswith(".error_handling")), None)
            rep.check(bool(calls) and fall is False and explicit is True and errh_g is False and tgt == [False], "C17.d", ESB, f"re-dispatch only after a matched `end` pattern into a non-accepting state [{key}]",
                      "end() re-dispatches (goto repeatswitch) on a path that is not 'a non-fallthrough, non-error move that lists End was taken and its target is not accepting': an Else standing for "
                      "end-of-input is a data pattern (a wait's self-loop would spin), a fall-through re-dispatches by itself, an accepting target answers DONE")
            continue
        if len(rets) != 1 or evs[-1].kind != "RET":
            rep.bad("C17.d", ESB, f"tail [{key}]", "per-state end body must end in exactly one return (or re-dispatch after a matched `end` pattern)")
            continue
        acc_atoms = {k: b for k, b in v.items() if k.endswith("in self.dfa.accepting_states")}
        if calls:
            n_taken += 1
            c = calls[0]
            from_end = len(c.b) >= 2 and c.b[1] in ("True", "from_end=True")
            rep.check(c.a == "_generate_transition_body" and from_end and c.b[0].startswith("state[DFTransition.End]"), "C17.d", ESB,
                      f"end move rendered with from_end=True [{key}]", f"end move rendered as {c.text}")
            # d2: an accepting state does not follow an error-handling move
            st_acc = v.get("state in self.dfa.accepting_states")
            errh = next((b for k, b in v.items() if k.endswith(".error_handling")), None)
            rep.check(st_acc is False or errh is False, "C17.d", ESB, "accepting state vs error-handling end move",
                      "an accepting state follows its error-handling Else/End move at end-of-input and returns FAIL although the program had already finished "
                      "(e.g. `\"a\"; optional { \"b\"; }` after \"a\")")
            fall = next((b for k, b in v.items() if k.endswith(".is_fallthrough")), None)
            if fall is False:
                tgt = {k: b for k, b in acc_atoms.items() if ".target in" in k}
                ok = len(tgt) == 1 and rets[0].a == ("DONE" if list(tgt.values())[0] else "FAIL")
                explicit = next((b for k, b in v.items() if k.startswith("DFTransition.End in ") and k.endswith(".on_values")), None)
                if ok and rets[0].a == "FAIL":
                    # FAIL after a taken move is only right when no `end` pattern matched (the Else stood for end-of-input): otherwise the program goes on
                    rep.check(explicit is False or errh is True, "C17.d", ESB, f"FAIL after a taken end move only when no `end` pattern matched (End not listed, or listed by an error path) [{key}]",
                              "after an `end` pattern matched, end() answers FAIL for a non-accepting target instead of going on from there: `\"a\"; end; yield Y; h();` "
                              "returns FAIL below -O3 (the statements after `end` are zero-width steps from the target)")
                rep.check(ok, "C17.d", ESB, "after a taken non-fallthrough end move: DONE iff the target is accepting",
                          f"tail returns {rets[0].a} deciding on {sorted(acc_atoms)}: after taking a non-fallthrough End transition the parser is in the "
                          "transition's target, whose acceptance must decide DONE/FAIL (with strict-done `\"a\"; end;` returned FAIL)")
            elif fall is None:
                rep.bad("C17.d", ESB, "after a taken non-fallthrough end move: DONE iff the target is accepting",
                        f"tail returns {rets[0].a} deciding on {sorted(acc_atoms)} without distinguishing a taken (non-fallthrough) End transition: the parser is then "
                        "in the transition's target, whose acceptance must decide DONE/FAIL (with strict-done `\"a\"; end;` returned FAIL)")
        else:
            n_plain += 1
            st_acc = v.get("state in self.dfa.accepting_states")
            has_move = v.get("state[DFTransition.End]")
            if has_move is True:
                errh = next((b for k, b in v.items() if k.endswith(".error_handling")), None)
                # F-111: a consuming Else (End not listed, not a fall-through: the restart of a wait) stands for data and is not taken at end-of-input either
                listed = next((b for k, b in v.items() if k.startswith("DFTransition.End in ") and k.endswith(".on_values")), None)
                if listed is None:
                    nl = next((b for k, b in v.items() if k.startswith("DFTransition.End not in ") and k.endswith(".on_values")), None)
                    listed = None if nl is None else (not nl)
                fallt = next((b for k, b in v.items() if k.endswith(".is_fallthrough")), None)
                data_else = listed is False and fallt is False
                rep.check((st_acc is True and errh is True) or data_else, "C17.d", ESB, "an existing End move is only skipped for an accepting state's error path (or when it is a consuming Else: data)",
                          "the state's End move is dropped although the state is not accepting (or the move is not an error path): `try { \"abc\"; } catch { end; }` can no "
                          "longer reach its handler at end-of-input")
            rep.check(st_acc is not None and rets[0].a == ("DONE" if st_acc else "FAIL"), "C17.d", ESB, f"no end move: DONE iff accepting [{key}]",
                      f"without an End move the state's own acceptance must decide; returns {rets[0].a}")
    if n_taken < 2 or n_plain < 2:
        raise AnalysisError(f"C17.d: expected taken/plain end paths, got {n_taken}/{n_plain}")

    # ------------------------------------------------------------------ C17.e end-context transition rows
    rep.rule("C17.e", "end-context transition bodies follow their protocol rows; gotos emitted in end() have labels there")
    tbs = transition_body_paths(ctx)
    n = 0
    for tb in tbs:
        if tb.get("FROM_END") is True:
            n += 1
            row, probs = check_row(tb)
            rep.check(not probs, "C17.e", "CodegenCtx._generate_transition_body", f"{row}: {tb.valuation_str()}", "; ".join(probs))
    if n < 20:
        raise AnalysisError("C17.e: end-context paths not found")
    fp = E.enumerate("CodegenCtx._generate_end_implementation")
    labels = set()
    for p, val, it in iter_lines(fp):
        for e in events_of([it], strict=False):
            if e.kind == "LABEL":
                labels.add(e.a)
    gotos = {e.a for tb in tbs if tb.get("FROM_END") for e in tb.events if e.kind == "GOTO"}
    for g in sorted(gotos):
        rep.check(g in labels, "C17.e", "CodegenCtx._generate_end_implementation", f"label for goto {g}", f"end() can contain `goto {g}` but defines no such label")


def _shared(ctx, rep, tier):
    rep.rule("C17.f", "End is a symbol of a state's alphabet: alphabets used to translate Else between states exclude only Else")
    la = ctx.model.func("DFState.local_alphabet")
    dflt = la.args.defaults
    rep.check(len(dflt) == 1 and ast.unparse(dflt[0]) == "(DFTransition.Else,)", "C17.f", "DFState.local_alphabet", "default alphabet excludes only Else",
              f"default `excluding` is {ast.unparse(dflt[0]) if dflt else None}: End drops out of foreign-else translations, so end-of-input reaching a handler that starts with "
              "`wait end` / `end` is no longer re-dispatched after optimisation")
    src = ast.unparse(la)
    rep.check("if i in excluding:" in src and "local_alphabet.add(i)" in src, "C17.f", "DFState.local_alphabet", "collects every symbol of every transition", "local_alphabet body changed")


_run0 = run


def run(ctx, rep, tier):
    _run0(ctx, rep, tier)
    _shared(ctx, rep, tier)


# ---------------------------------------------------------------------------------------------------------------- C17.g / h / i
def _end_redirects_and_joins(ctx, rep, tier):
    import ast, re
    from ..srcmodel import walk_no_nested
    model = ctx.model
    # C17.g - end(): an action of the taken end transition may redirect at run time; the answer must follow the state really reached
    q = "CodegenCtx._generate_end_switch_body"
    rep.rule("C17.g", "end(): when an action of the taken (consuming) end transition can redirect, states that answer differently from the nominal target get a run-time test before the static DONE/FAIL")
    ok = model.has(q, "if not unconditional_end_transition.is_fallthrough:\n    final_state = unconditional_end_transition.target\n    ...\n    for action in unconditional_end_transition.actions:\n"
                      "        for subaction in action.all_subactions():\n            if subaction.get_target_override_mode() != ActionOverrideMode.NONE:\n"
                      "                redirected_to.update(subaction.get_target_override_targets())")
    rep.check(ok, "C17.g", q, "override targets of every (sub-)action of the taken end transition are collected", "end() ignores where an action of the end transition may redirect: a break under an if taken in an "
              "`end` clause leaves the machine in the loop exit while DONE/FAIL is answered for the nominal target")
    ok = model.has(q, "answers_differently = sorted((self.dfa.states.index(x) for x in redirected_to if x in self.dfa.states and (x in self.dfa.accepting_states) != (final_state in self.dfa.accepting_states)))") and \
        model.has(q, "if answers_differently:\n    redirected = ' || '.join((f'state->state == {x}' for x in answers_differently))\n    if final_state in self.dfa.accepting_states:\n"
                     "        result.add(f'if ({redirected}) goto repeatswitch;')\n    else:\n        result.add(f'if ({redirected}) return {self.program_name.upper()}_DONE;')")
    rep.check(ok, "C17.g", q, "redirect targets whose acceptance differs are tested on state->state: an accepting one answers DONE, a non-accepting one is re-dispatched (end-of-input still pending there)",
              "the run-time test for redirected end transitions changed")
    # (F-128) ... and the test is reachable: the transition body does not answer DONE on its own when an action may have left (decided on the emission paths: C02.b / C10.a, row end_nonfall)
    tbq = "CodegenCtx._generate_transition_body"
    ok = any(isinstance(n, ast.If) and "immediate_done" in ast.unparse(n.test) and "from_end" in ast.unparse(n.test) and "leaves_for_elsewhere" in ast.unparse(n.test) for n in ast.walk(model.func(tbq)))
    rep.check(ok, "C17.g", tbq, "in end() the immediate DONE is not answered where an action may have left for another state",
              "the transition body answers DONE for its own target in end() although an action (a break under an if) may have sent the machine elsewhere: the caller's test on state->state is dead code "
              "(`end -> { if a == 2 { break inner; } break outer; }`: DONE from a non-accepting state)")
    body = strip_doc(model.func(q).body)
    idx_t = next((i for i, st in enumerate(body) if isinstance(st, ast.If) and ast.unparse(st.test) == "answers_differently"), None)
    idx_s = next((i for i, st in enumerate(body) if isinstance(st, ast.If) and ast.unparse(st.test) == "final_state in self.dfa.accepting_states"), None)
    rep.check(idx_t is not None and idx_s is not None and idx_t < idx_s, "C17.g", q, "the run-time test precedes the static answer", "static DONE/FAIL is emitted before the redirect test: the test is dead code")
    # C17.h - joining a statement that starts with a condition point
    q = "DFA.append_after"
    rep.rule("C17.h", "append_after wraps a chained machine starting with a condition point whenever some symbol can continue (also when nothing is left for the error side, as with wildcard + `end` branches) and, else-like, when no branch starts with a match at all")
    ok = model.has(q, "valid, to_else = chained_dfa.starting_state.equivalent_on_values()\n...\nif valid:\n    ...") and \
        model.has(q, "only_acts = isinstance(chained_dfa.starting_state, DFConditionPoint) and (not valid) and (not to_else)\nif only_acts:\n    valid = {DFTransition.Else}") and \
        model.has(q, "if only_acts:\n    fake_initial_transition.handles_else()") and \
        model.has(q, "if to_else:\n    fake_start[to_else] = chained_dfa.starting_state\n    fake_start[to_else].fallthrough(True).handles_else()") and \
        model.has(q, "fake_start[valid] = chained_dfa.starting_state\nfake_initial_transition = fake_start[valid].fallthrough(True)")
    rep.check(ok, "C17.h", q, "helper start state built under `if valid:`; error side only when non-empty", "the helper start state for a chained condition point is only built when some symbol is left for the error "
              "side: `if v == 1 { /./; } else { end; }` takes every byte and end-of-input, no helper is built and the condition is never evaluated")
    # C17.i - merged case states keep End apart from a continuing wildcard's Else
    q = "CaseNode._merge"
    rep.rule("C17.i", "merged case states: symbols a constituent pattern explicitly excludes (End in particular) are not swallowed by the Else of a pattern that continues - for accepting merged states too")
    fn = model.func(q)
    w = next((n for n in walk_no_nested(fn) if isinstance(n, ast.While) and "to_process.empty()" in ast.unparse(n.test)), None)
    if w is None:
        raise AnalysisError("C17.i: work loop of CaseNode._merge not found")
    mk = next((i for i, st in enumerate(w.body) if isinstance(st, ast.If) and "DFTransition(list(actual_else))" in ast.unparse(st)), None)
    skip = next((i for i, st in enumerate(w.body) if isinstance(st, ast.If) and ast.unparse(st.test) == "converted_states[processing] in new_dfa.accepting_states" and
                 len(st.body) == 1 and isinstance(st.body[0], ast.Continue)), None)
    if mk is None:
        raise AnalysisError("C17.i: creation of the no-match transition not found in CaseNode._merge")
    keep = next((st for st in w.body if isinstance(st, ast.If) and ast.unparse(st.test) == "converted_states[processing] in new_dfa.accepting_states" and len(st.body) == 1 and isinstance(st.body[0], ast.If) and
                 ast.unparse(st.body[0].test) == "DFTransition.Else in actual_else or not any((DFTransition.Else in x.on_values for x in converted_states[processing].transitions))" and
                 isinstance(st.body[0].body[-1], ast.Continue)), None)
    rep.check(not (skip is not None and skip < mk) and keep is not None and w.body.index(keep) < mk, "C17.i", q, "accepting merged states keep the explicit exclusions of a continuing wildcard",
              "accepting merged states skip the no-match transition unconditionally: the `{excluded bytes, End}` entry of a wildcard / inverted set that continues there is dropped and its Else covers "
              "End - `greedy case { /a/ -> {} /a./ -> { v = 2; finish FC; } }`: feed(\"a\") then end() runs the second clause (FINISH_FC, v = 2) instead of DONE")


_run_gh = run


def run(ctx, rep, tier):
    _run_gh(ctx, rep, tier)
    _end_redirects_and_joins(ctx, rep, tier)
    from . import structs
    from .shared import delegate
    structs.check_cull_policy(ctx, rep, "C17.j")      # joins keep the explicit End exclusion of a following wildcard
    delegate(ctx, rep, tier, "C05", ("C05.a", "C05.b", "C05.g", "C05.h", "C05.i"), "C17.k", "optimiser rewrites keep the error mark end() relies on and never reroute End past the transition that handles it")


def _end_is_not_a_character(ctx, rep, tier):
    import ast
    model = ctx.model
    rep.rule("C17.l", "each-character actions (appends, foreach bodies) never sit on a transition that only consumes end-of-input")
    q = "EndMatch.convert"
    fn = model.func(q)
    att = [c for c in calls_in(fn) if isinstance(c.func, ast.Attribute) and c.func.attr == "attach" and "DFTransition.End" in ast.unparse(c.func.value)]
    rep.check(len(att) == 1 and "char_actions" not in ast.unparse(att[0]) and "self.start_actions" in ast.unparse(att[0]) and "self.finish_actions" in ast.unparse(att[0]), "C17.l", q,
              "the End transition of an `end` pattern carries start and finish actions only", "`s += (\"ab\" end);` appends a phantom byte (0xff, the placeholder end() defines for the current byte) when end() is called")
    q = "ForeachNode.convert"
    ok = model.has(q, "if set(transition.on_values) == {DFTransition.End}:\n    continue\ntransition.attach(*self.each_actions, prepend=True)") or \
        model.has(q, "if set(transition.on_values) == {DFTransition.End}:\n    continue\ntransition.attach_for_this_byte(*self.each_actions)")
    rep.check(ok, "C17.l", q, "foreach skips transitions that consume only end-of-input", "`foreach { \"ab\"; end; } do { n = [n + 1]; }` counts end-of-input as a character")


def _consuming_else_is_data(ctx, rep, tier):
    """C17.m (F-111): DFState.__getitem__ answers for End with the Else transition when End is not listed. That fallback is right for non-consuming steps (they re-dispatch);
    an Else that TAKES a byte - the restart transition of a wait - is a data pattern: end() must not take it, nor perform its actions (the per-character actions of an
    enclosing foreach ran once more, for a byte that does not exist)."""
    import ast
    model = ctx.model
    rep.rule("C17.m", "end() does not take a consuming Else (End not listed, not a fall-through) as its End move")
    fn = model.func(ESB)
    body = strip_doc(fn.body)
    i_lookup = next((i for i, st in enumerate(body) if isinstance(st, ast.Assign) and ast.unparse(st.value) == "state[DFTransition.End]"), None)
    i_render = next((i for i, st in enumerate(body) if "_generate_transition_body(unconditional_end_transition" in ast.unparse(st)), None)
    guards = [i for i, st in enumerate(body) if isinstance(st, ast.If) and
              ast.unparse(st.test) == "unconditional_end_transition and DFTransition.End not in unconditional_end_transition.on_values and (not unconditional_end_transition.is_fallthrough)" and
              [ast.unparse(x) for x in st.body] == ["unconditional_end_transition = None"]]
    rep.check(i_lookup is not None and i_render is not None and len(guards) == 1 and i_lookup < guards[0] < i_render, "C17.m", ESB,
              "between the lookup and the rendering: a move that does not list End and consumes is dropped",
              "end() follows the Else fallback of the End lookup into a CONSUMING transition (the restart of a wait): its actions run for a byte that does not exist - "
              "`foreach { wait \"ba\"; } do { n = [n + 1]; each(); }` calls each() at end-of-input")


_run_l = run


def run(ctx, rep, tier):
    _run_l(ctx, rep, tier)
    _end_is_not_a_character(ctx, rep, tier)
    _consuming_else_is_data(ctx, rep, tier)
