"""Rule sharing: a clause decided under one property that is also a necessary condition of another is re-reported there under its own rule id."""
import importlib
from ..core import Report


def delegate(ctx, rep, tier, source_prop, source_rules, rule, text, where=None, pred=None):
    """Run `source_prop`'s rules on the same context and re-report violations of `source_rules` (optionally filtered) under `rule`."""
    mod = importlib.import_module(f"nmfulint.rules.{source_prop.lower()}")
    rep.rule(rule, text + f" (shared with {', '.join(source_rules)})")
    cache = getattr(ctx, "_delegate_cache", None)
    if cache is None:
        cache = ctx._delegate_cache = {}
    if source_prop not in cache:
        # a delegation cycle (A shares a rule of B, B one of A) would recurse for ever: fail at once, naming it
        running = getattr(ctx, "_delegate_running", None)
        if running is None:
            running = ctx._delegate_running = []
        if source_prop in running:
            from ..core import AnalysisError
            raise AnalysisError(f"circular rule sharing: {' -> '.join(running + [source_prop])} (state the clause directly in one of the two modules)")
        running.append(source_prop)
        sub = Report(source_prop)
        runner = getattr(mod, "_run0", None) if getattr(mod, "DELEGATE_BASE_ONLY", False) else mod.run
        try:
            runner(ctx, sub, tier)
        finally:
            running.pop()
        cache[source_prop] = sub
    sub = cache[source_prop]
    n = 0
    for v in sub.violations:
        if v.rule in source_rules and (pred is None or pred(v)):
            rep.bad(rule, v.function, v.construct, v.message, v.extra, v.line)
            n += 1
    if not n:
        cnt = sum(sub.instances.get(r, 0) for r in source_rules)
        rep.ok(rule, where or source_prop, f"{cnt} shared instance(s) hold")
        rep.bulk_ok(rule, max(cnt - 1, 0))
    return n


def delegate_fn(ctx, rep, tier, fn, source_rules, rule, text, prop="?"):
    """Like delegate(), but runs one rule function of another module (not the module's whole chain): for clauses whose home module shares rules with the
    caller itself, where delegate() would be circular."""
    rep.rule(rule, text + f" (shared with {', '.join(source_rules)})")
    cache = getattr(ctx, "_delegate_fn_cache", None)
    if cache is None:
        cache = ctx._delegate_fn_cache = {}
    if fn not in cache:
        sub = Report(prop)
        fn(ctx, sub, tier)
        cache[fn] = sub
    sub = cache[fn]
    n = 0
    from .. import core
    known = [e for e in core.load_known_findings().get("open", []) if e.get("property") == prop]
    for v in sub.violations:
        if v.rule in source_rules:
            if any(core.finding_matches(e, v) for e in known):
                continue                                    # a recorded finding of the home property: reported there, once
            rep.bad(rule, v.function, v.construct, v.message, v.extra, v.line)
            n += 1
    if not n:
        cnt = sum(sub.instances.get(r, 0) for r in source_rules)
        rep.ok(rule, prop, f"{cnt} shared instance(s) hold")
        rep.bulk_ok(rule, max(cnt - 1, 0))
    return n
