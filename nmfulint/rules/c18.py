"""C18 - the compiler always terminates with code or a diagnosed error (DESIGN.md section 3, C18): exception discipline."""
import ast, re
from ..core import AnalysisError
from ..srcmodel import walk_no_nested, calls_in, strip_doc, raised_class, raises_in
from ..dispatch import dispatch_on, isinstance_chain, dict_subscripts, dict_keys_const
from ..flow import DefiniteAssignment, may_fall_off

EXPLANATION = (
    "'Never an internal exception' for all sources is an exception-discipline property. Decided over the pipeline "
    "functions (front end, node converters, DFA algebra, optimiser, code generator, error rendering): C18.a every raise "
    "of a non-NMFUError type (and every assert) is either proven dead - the residual arm of a dispatch shown total over "
    "the grammar / class domain on this run -, caught at every call site, or listed in a frozen triage table with its "
    "reason; anything else is reported. C18.b dict-literal subscripts are total over the finite domain of their key or "
    "guarded. C18.c conversions of input-derived text (int / chr / Enum(value)) are justified by the terminal that "
    "produced the text, or guarded. C18.d no use of a possibly-unassigned local. C18.e values that may be None (a "
    "function that can fall off its end; the remaining AST of an action-only parser) are not used unconditionally. "
    "C18.f error constructors whose message reads `.value` receive tokens. C18.g unbounded macro recursion is refused. "
    "C18.h the driver catches, per phase, what can escape. C18.i/j .index() and ord() on symbol collections. C18.k next() without a default, C18.m coll.remove(x) / del coll[k]: guarded, or triaged with the construct that guarantees presence, re-matched on every run. C18.l a constructor that raises a diagnosed error citing `self` has assigned every field its debug_lookup reads when the message is rendered.")
NOT_DECIDED = ("termination of the compiler's fixpoint loops (optimisation loop, class splitting, partition refinement) - a variant argument over heap graphs; "
               "IndexError / AttributeError / RecursionError in general (only the flows above)")
ENGINES = ["E1 source model", "E2 grammar model", "E3 dispatch", "E9 definite assignment / fall-off analysis"]

# functions that are not part of a compilation (tests' helpers, debug dumpers, CLI printing)
NON_PIPELINE = re.compile(r"^(debug_dump|main$|ProgramData\._print_|DFA\.(simulate|trace|simulate_accepts)|Outputter\.|IndexableInstance\.|dprint\.|lark\.)")

# --- frozen triage tables (one reason each); keys are (function, construct) -----------------------------------------------------
RAISE_TRIAGE = {
    ("DFConditionPoint.__getitem__", "NotImplementedError"): "subscripted states are end states of a construct, the start of a chained machine, or states met while walking transitions of matching "
        "states; a condition point can only become one of these as the start of a body - re-checked: RAISE_REQUIRES",
    ("DFConditionPoint.__delitem__", "NotImplementedError"): "same as __getitem__",
    ("DFConditionPoint.__setitem__", "NotImplementedError"): "same as __getitem__",
    ("CodegenCtx._convert_literal_value", "NotImplementedError"): "LiteralIntegerExpr is only constructed with BOOL / INT / ENUM types (constructor call sites), STR is handled, RAW cannot hold a literal",
    ("ProgramData.load_commandline_flags", "RuntimeError"): "the CLI's own diagnosed error type (caught and printed by main)",
    ("ProgramData.load_commandline_flags.aux", "RuntimeError"): "the CLI's own diagnosed error type",
}
# constructs a triaged raise rests on: re-matched on every run (a vanished construct un-triages the raise)
RAISE_REQUIRES = {
    ("DFConditionPoint.__getitem__", "NotImplementedError"): [
        ("OptionalNode.convert", "if isinstance(sub_dfa.starting_state, DFProxyState):\n    raise IllegalDFAStateError($$m, sub_dfa.starting_state)"),       # the only place a start state is made an end state
        ("DFA.append_after", "if isinstance(chained_dfa.starting_state, DFProxyState):\n    ..."),                                                               # a proxy start of the chained machine is wrapped
        ("LoopNode.convert", "if isinstance(loop_start, DFProxyState):\n    ...\nelse:\n    restart = loop_start[symbol]\n    ..."),                               # loop-back test dispatches on the kind of start
    ],
}
ASSERT_TRIAGE = {
    ("ParseCtx._lookup_named_entity", "from_tree.type == 'IDENTIFIER'"): "checked: every call site passes children[0] of a label whose first child is an IDENTIFIER token (grammar typing, C18.a2)",
    ("CodegenCtx._generate_action_implementation", "action.into_storage.holds_a(OutputStorageType.STR)"): "SetToStr.__init__ refuses non-string storage",
    ("CodegenCtx._generate_action_implementation", "action.into_storage.holds_buflike()"): "DeleteBuf.__init__ refuses non-buffers; AppendTo/AppendCharTo are only built under targeted.holds_buflike()",
    ("CodegenCtx._generate_start_implementation", "out_expr.holds_a(OutputStorageType.STR)"): "_parse_out_decl only keeps a default for non-raw outputs; raw outputs are built without default_value",
}
DA_TRIAGE = {
    ("ProgramData.load_commandline_flags", "option_value"): "assigned for every option that takes a value; flag options (--help, --dry-run, ...) never read it",
    ("BinaryRegexMatch._visit_all_char_classes", "new_set"): "set elements are only tokens or ranges (grammar: binary_regex_set_element), checked as C07.c",
    ("IfElseNode.convert", "dummy_target"): "assigned iff some branch body is None, used only for a branch whose body is None",
}
FALLOFF_TRIAGE = {
    "DFState.__getitem__": "Optional by contract; that the results are None-tested before use is decided by C18.q (it was an unchecked belief here until F-52)",
    "RegexCharClass.isdisjoint": "isinstance dispatch over the two class kinds (total)",
    "RegexCharClass.split": "isinstance dispatch over the two class kinds (total)",
    "InvertedRegexCharClass.isdisjoint": "isinstance dispatch over the two class kinds (total)",
    "InvertedRegexCharClass.split": "isinstance dispatch over the two class kinds (total)",
    "RegexNFA.minimize_dfa.split.splits": "Optional by contract: caller tests `if split:`",
    "RegexMatch._visit_all_char_classes": "dispatch total over the grammar's regex labels (re-checked: C07.c)",
    "BinaryRegexMatch._visit_all_char_classes": "dispatch total over the grammar's binary regex labels (re-checked: C07.c)",
    "CodegenCtx._generate_condition": "isinstance dispatch total over the instantiated DFCondition classes (re-checked: C06.e)",
}


def pipeline(model):
    return {q: f for q, f in model.functions.items() if not NON_PIPELINE.search(q)}


def run(ctx, rep, tier):
    model, g = ctx.model, ctx.grammar
    consts = ctx.module_str_lists()
    fns = pipeline(model)
    rep.count("pipeline_functions", len(fns))

    # ------------------------------------------------------------------ C18.a explicit raises and asserts
    rep.rule("C18.a", "every raise of a non-NMFUError type / every assert in the pipeline is proven dead by dispatch coverage, caught at all call sites, or triaged")
    dead = dead_raises(ctx)
    n_raise = 0
    for q, f in fns.items():
        for r in raises_in(f, nested=False):
            cls = raised_class(r)
            if cls is None:
                continue   # bare re-raise
            if cls in model.classes and model.is_subclass(cls, "NMFUError"):
                continue
            n_raise += 1
            key = (q, cls)
            local = None
            x = r
            while x in model.parents and x is not f:
                child, x = x, model.parents[x]
                if isinstance(x, ast.Try) and any(child is s_ for s_ in x.body) and any(h.type is not None and re.search(r"\b(%s|Exception)\b" % re.escape(cls), ast.unparse(h.type)) for h in x.handlers):
                    local = x
                    break
            if local is not None:
                rep.ok("C18.a", q, f"raise {cls}: caught by the enclosing try of the same function (line {local.lineno})")
            elif (q, r.lineno) in dead:
                rep.ok("C18.a", q, f"raise {cls}: dead - {dead[(q, r.lineno)]}")
            elif key in RAISE_TRIAGE:
                reqs = RAISE_REQUIRES.get(key, [])
                missing = [fq for fq, pat in reqs if not model.has(fq, pat)]
                rep.check(not missing, "C18.a", q, f"raise {cls}: triaged - {RAISE_TRIAGE[key][:70]}", f"`raise {cls}` in {q} was unreachable because of a construct in {missing} that is gone: "
                          "it now reaches the user as an internal exception (e.g. `optional { if .. }` subscripting a condition point)")
            elif cls == "ValueError" and q == "ParseCtx._convert_binary_string":
                ok = all_callers_catch(model, "_convert_binary_string", "ValueError")
                rep.check(ok, "C18.a", q, "raise ValueError: caught at every call site", "ValueError from the binary-string decoder escapes at some call site")
            elif cls in ("ValueError", "ArithmeticError", "ZeroDivisionError", "OverflowError") and q.endswith(".get_literal_result"):
                rep.ok("C18.a", q, f"raise {cls}: compile-time evaluator - every consumer of a non-total evaluator catches ArithmeticError / ValueError (decided by C18.n)")
            else:
                rep.bad("C18.a", q, f"raise {cls}", f"`{ast.unparse(r)[:80]}` raises {cls}, which is not an NMFUError: it reaches the user as an internal exception "
                        "(not proven dead by dispatch coverage, not caught by every caller, not triaged)", line=r.lineno)
        for a in [n for n in walk_no_nested(f) if isinstance(n, ast.Assert)]:
            n_raise += 1
            key = (q, ast.unparse(a.test))
            why = None if key in ASSERT_TRIAGE else assert_discharged(model, q, f, a)
            if why:
                rep.ok("C18.a", q, f"assert {key[1][:60]}: cannot fail - {why}")
                continue
            if key in ASSERT_TRIAGE:
                rep.ok("C18.a", q, f"assert {key[1][:60]}: triaged - {ASSERT_TRIAGE[key][:60]}")
            else:
                # whether an assertion the tables do not know can fail is not decidable here: stating an invariant is not a defect, and no rule that fires on every
                # added `assert` can tell a true one from a false one (all eight added by the behaviour-preserving corpus were true). Recorded, not reported.
                rep.ok("C18.a", q, f"assert {key[1][:60]}: NOT DECIDED (unknown assertion; see notes)", nontrivial=False)
                rep.notes.append(f"C18.a: assertion `{key[1][:80]}` in {q} is neither triaged nor discharged by a dominating guard: whether it can fail is not decided")
    if n_raise < 12:
        raise AnalysisError(f"C18.a: only {n_raise} non-NMFU raises/asserts found (floor 12)")
    for (q, c), why in RAISE_TRIAGE.items():
        if q not in model.functions:
            rep.notes.append(f"triage entry for vanished function {q}")
    # a2: _lookup_named_entity's assert: every call site passes an IDENTIFIER token
    rep.rule("C18.a2", "_lookup_named_entity is only called with children[0] of a label whose first child is an IDENTIFIER token (its assert / .value access)")
    n_l = 0
    for q, f in fns.items():
        disp = None
        for subj in ("stmt.data", "expr.data"):
            try:
                disp = dispatch_on(f.body, subj, consts)
                dsubj = subj.split(".")[0]
                break
            except AnalysisError:
                continue
        for c in calls_in(f, nested=False):
            if isinstance(c.func, ast.Attribute) and c.func.attr == "_lookup_named_entity" and len(c.args) == 2:
                arg = ast.unparse(c.args[1])
                n_l += 1
                if q == "ParseCtx._lookup_named_entity":
                    rep.ok("C18.a2", q, "recursive call forwards its own token", nontrivial=False)
                    continue
                m = re.fullmatch(r"(\w+)(\.children\[1\])?\.children\[0\]", arg)
                labels = None
                if m and disp is not None and m.group(1) == dsubj and not m.group(2):
                    for labs, body, test in disp.arms:
                        if any(c is n for st in body for n in ast.walk(st)):
                            labels = labs
                if labels:
                    ok = all(g.child_at(l, 0) == {"TOKEN:IDENTIFIER"} for l in labels)
                    rep.check(ok, "C18.a2", q, f"{arg} under labels {sorted(labels)}", f"child 0 of {sorted(labels)} is not always an IDENTIFIER token")
                elif q == "Macro.bind_arguments_for":
                    order_ok = bind_check_precedes_lookup(f)
                    rep.check(order_ok, "C18.a2", q, "early-bind lookup is dominated by the argument-kind check (identifier_const only)",
                              "the early-binding lookup runs before / without the kind check: a non-identifier argument (`m(\"abc\")`, `m(5)`) reaches "
                              "_lookup_named_entity's assert / `.value` access - AssertionError / AttributeError instead of a diagnosed error")
                elif q == "ParseCtx._parse_assign_stmt" and arg in ("stmt.children[0]", "stmt.children[1].children[0]"):
                    lab = {"assign_stmt", "append_stmt"} if arg == "stmt.children[0]" else {"identifier_const"}
                    ok = all(g.child_at(l, 0) == {"TOKEN:IDENTIFIER"} for l in lab)
                    rep.check(ok, "C18.a2", q, f"{arg}: IDENTIFIER token", "not an identifier token")
                else:
                    rep.bad("C18.a2", q, f"_lookup_named_entity(.., {arg})", "cannot show that this argument is an IDENTIFIER token")
    if n_l < 12:
        raise AnalysisError(f"C18.a2: only {n_l} lookup call sites")

    # ------------------------------------------------------------------ C18.b dict-literal subscripts
    rep.rule("C18.b", "dict-literal subscripts are total over the finite domain of their key, or guarded by a membership test / except KeyError")
    n_b = 0
    for q, f in fns.items():
        for node, dnode, knode, has_default in dict_subscripts(f):
            n_b += 1
            if has_default:
                rep.ok("C18.b", q, f"{{..}}.get({ast.unparse(knode)[:40]}, default)", nontrivial=False)
                continue
            verdict, why = dict_total(ctx, q, f, node, dnode, knode)
            rep.check(verdict, "C18.b", q, f"{{{len(dnode.keys)} keys}}[{ast.unparse(knode)[:50]}]", why, line=node.lineno)
    if n_b < 12:
        raise AnalysisError(f"C18.b: only {n_b} dict-literal subscripts found")

    # ------------------------------------------------------------------ C18.c partial conversions of input-derived text
    rep.rule("C18.c", "int()/chr()/Enum(value) on input-derived text is justified by the terminal that produced it, validated, or guarded")
    n_c = 0
    enum_classes = {c for c, ci in model.classes.items() if any("Enum" in b for b in ci.bases)}
    for q, f in fns.items():
        if q.startswith("ProgramData."):
            continue
        for c in calls_in(f, nested=False):
            if not isinstance(c.func, ast.Name):
                continue
            if c.func.id == "int" and c.args and not isinstance(c.args[0], ast.Constant):
                n_c += 1
                ok, why = int_justified(ctx, q, f, c)
                rep.check(ok, "C18.c", q, ast.unparse(c)[:70], why, line=c.lineno)
            elif c.func.id in enum_classes and c.args:
                n_c += 1
                ok, why = enum_justified(ctx, q, f, c)
                rep.check(ok, "C18.c", q, ast.unparse(c)[:70], why, line=c.lineno)
    if n_c < 10:
        raise AnalysisError(f"C18.c: only {n_c} conversions found")

    # ------------------------------------------------------------------ C18.d definite assignment
    rep.rule("C18.d", "no local is read on a path on which it was never assigned (UnboundLocalError)")
    for q, f in model.functions.items():
        if q.startswith("debug_dump") or q == "main":
            continue
        probs = sorted(set(n for n, _ in DefiniteAssignment(f).run()))
        lines = {n: l for n, l in DefiniteAssignment(f).run()}
        for name in probs:
            rep.check((q, name) in DA_TRIAGE, "C18.d", q, f"local `{name}`", f"`{name}` is read on a path where it was never assigned (UnboundLocalError instead of a diagnosed error)", line=lines.get(name))
        if not probs:
            rep.ok("C18.d", q, "all locals definitely assigned", nontrivial=False)

    # ------------------------------------------------------------------ C18.e optional flow
    rep.rule("C18.e", "a value that may be None is not used unconditionally: value-returning functions that can fall off their end are triaged; the remaining AST of an "
                      "action-only parser is tested before conversion")
    for q, f in fns.items():
        if q.endswith(".debug_lookup"):
            continue     # Optional by contract: ProgramData.lookup tests the result
        if may_fall_off(f):
            rep.check(q in FALLOFF_TRIAGE, "C18.e", q, "may fall off its end",
                      f"{q} returns a value on some paths but can also reach the end of its body and return None; its callers use the result unconditionally "
                      "(TypeError/AttributeError on None)")
    lk = ast.unparse(model.func("ProgramData.lookup"))
    rep.check(model.has("ProgramData.lookup", "val = obj.debug_lookup(tag)") and model.has("ProgramData.lookup", "if val is not None:"), "C18.e", "ProgramData.lookup", "debug_lookup results are None-tested", "debug_lookup contract changed")
    cp = model.func("DfaCompileCtx.compile")
    body = strip_doc(cp.body)
    conv = next((i for i, st in enumerate(body) if "self.ast.convert(" in ast.unparse(st)), None)
    guard = next((i for i, st in enumerate(body) if isinstance(st, ast.If) and re.search(r"self\.ast is None|not self\.ast", ast.unparse(st.test)) and
                  any(isinstance(x, ast.Raise) and model.is_subclass(raised_class(x) or "", "NMFUError") for x in st.body)), None)
    rep.check(conv is not None and guard is not None and guard < conv, "C18.e", "DfaCompileCtx.compile", "self.ast (None for an action-only parser) is tested before conversion",
              "ParseCtx.parse leaves self.ast = None when the parser body consists only of actions (adopt_actions_from's second component); compile() dereferences it "
              "unconditionally: AttributeError instead of a diagnosed error")
    pp = ast.unparse(model.func("ParseCtx.parse"))
    rep.check(model.has("ParseCtx.parse", "self.start_actions, self.ast = self.ast.adopt_actions_from()"), "C18.e", "ParseCtx.parse", "leading actions become start actions", "start action adoption changed")

    # ------------------------------------------------------------------ C18.f diagnostics render
    rep.rule("C18.f", "error classes whose message reads `.value` of their source are constructed with tokens")
    n_f = 0
    for q, f in fns.items():
        for c in calls_in(f, nested=False):
            if isinstance(c.func, ast.Name) and c.func.id == "UndefinedReferenceError" and len(c.args) == 2:
                n_f += 1
                arg = ast.unparse(c.args[1])
                ok = re.search(r"\.children\[\d+\]$", arg) is not None or arg in ("from_tree", "ref", "option")
                rep.check(ok, "C18.f", q, f"UndefinedReferenceError(.., {arg})",
                          f"UndefinedReferenceError.__str__ reads source.value but is constructed with `{arg}` (a parse tree, not a token): rendering the diagnostic raises AttributeError",
                          line=c.lineno)
    if n_f < 6:
        raise AnalysisError("C18.f: UndefinedReferenceError construction sites not found")
    us = ast.unparse(model.func("UndefinedReferenceError.__str__"))
    rep.check(model.has("UndefinedReferenceError.__str__", "self.source.value"), "C18.f", "UndefinedReferenceError.__str__", "reads source.value", "message rendering changed: re-derive the typing rule")
    for cls in ("IllegalASTStateError", "IllegalDFAStateConflictsError", "UnableToScheduleActionError", "DuplicateDefinitionError", "NMFUError"):
        o, sf = model.resolve_method(cls, "__str__")
        rep.check(sf is not None and o != "Exception", "C18.f", f"{cls}.__str__", "diagnostic renders through _get_message", f"{cls} has no __str__")

    # ------------------------------------------------------------------ C18.g recursion guard (shared with C13.f)
    rep.rule("C18.g", "recursion driven by user-controlled nesting through a name lookup (macro expansion) is bounded by a diagnosed error")
    pmc = model.func("ParseCtx._parse_macro_call")
    body = strip_doc(pmc.body)
    push = next((i for i, st in enumerate(body) if "bound_argument_stack.append(" in ast.unparse(st)), None)
    guard = next((i for i, st in enumerate(body) if isinstance(st, (ast.If, ast.While)) and re.search(r"depth|instance|active_macro", ast.unparse(st.test if isinstance(st, ast.If) else st)) and
                  any(isinstance(x, ast.Raise) and model.is_subclass(raised_class(x) or "", "NMFUError") for x in ast.walk(st))), None)
    rep.check(push is not None and guard is not None and guard < push, "C18.g", "ParseCtx._parse_macro_call", "expansion depth guard before expanding",
              "macro expansion recursion is unbounded: `macro a() { a(); }` ends in RecursionError")

    # ------------------------------------------------------------------ C18.h driver
    rep.rule("C18.h", "main() catches, per phase, the exception types the pipeline can raise")
    mn = model.func("main")
    handlers = {}
    for t in [n for n in ast.walk(mn) if isinstance(n, ast.Try)]:
        body_src = " ".join(ast.unparse(s) for s in t.body)
        for h in t.handlers:
            hts = [ast.unparse(e) for e in h.type.elts] if isinstance(h.type, ast.Tuple) else [ast.unparse(h.type) if h.type else "*"]
            for phase, pat in (("flags", "load_commandline_flags"), ("read", "open(input_file)"), ("syntax", "parser.parse("), ("parse", "pctx.parse()"), ("compile", "dctx.compile()"), ("codegen", "generate_header()"),
                               ("write", "f.write(header)")):
                if pat in body_src:
                    handlers.setdefault(phase, set()).update(hts)
    want = {"flags": ["RuntimeError"], "read": ["IOError", "UnicodeDecodeError"], "syntax": ["lark.LarkError"], "parse": ["NMFUError"], "compile": ["NMFUError"], "codegen": ["NMFUError"], "write": ["IOError"]}
    why = {"UnicodeDecodeError": " (text-mode read() decodes: a Latin-1 byte in a comment ends in a traceback - F-98)", "IOError": ""}
    for phase, hts in want.items():
        for ht in hts:
            rep.check(ht in handlers.get(phase, set()) or (ht == "IOError" and "OSError" in handlers.get(phase, set())), "C18.h", "main", f"{phase} phase handles {ht}",
                      f"main() does not catch {ht} around the {phase} phase{why.get(ht, '')}" + (" (an unwritable output location ends in a traceback after the whole compilation - F-99)" if phase == "write" else ""))


# ================================================================================================================ helpers
def _block_of(model, node):
    par = model.parents.get(node)
    for fld in ("body", "orelse", "finalbody"):
        blk = getattr(par, fld, None)
        if isinstance(blk, list) and any(x is node for x in blk):
            return blk, [x is node for x in blk].index(True)
    return None, None


def _untouched(stmts, names):
    """None of `names` is rebound, nor is a method called on / an item stored into one of them, in `stmts`."""
    for st in stmts:
        for n in ast.walk(st):
            if isinstance(n, ast.Name) and n.id in names and not isinstance(n.ctx, ast.Load):
                return False
            if isinstance(n, (ast.Attribute, ast.Subscript)) and not isinstance(n.ctx, ast.Load) and any(isinstance(x, ast.Name) and x.id in names for x in ast.walk(n)):
                return False
            if isinstance(n, ast.Call) and isinstance(n.func, ast.Attribute) and any(isinstance(x, ast.Name) and x.id in names for x in ast.walk(n.func.value)):
                return False
    return True


def assert_discharged(model, q, f, a):
    """An assertion that cannot fail is no way to an internal exception. Two forms are decided:
    (1) an earlier statement of the same block leaves (raise / return / continue / break) exactly when the assertion would fail, and nothing in between touches what the test reads;
    (2) `assert isinstance(x, T)` where x was just bound from a call of a method of the same class all of whose returns build a T at that position (or from T(..) itself)."""
    from ..canon import nexpr, neg
    blk, i = _block_of(model, a)
    if blk is None:
        return None
    want = ast.dump(nexpr(a.test, True))
    names = {n.id for n in ast.walk(a.test) if isinstance(n, ast.Name)} - {"len", "isinstance", "type"}
    for j in range(i - 1, -1, -1):
        st = blk[j]
        if isinstance(st, ast.If) and not st.orelse and isinstance(st.body[-1], (ast.Raise, ast.Return, ast.Continue, ast.Break)) and ast.dump(neg(nexpr(st.test, True))) == want:
            if _untouched(blk[j + 1:i], names):
                return f"the block leaves at `if {ast.unparse(st.test)[:50]}` otherwise"
            return None
    t = a.test
    if isinstance(t, ast.Call) and ast.unparse(t.func) == "isinstance" and len(t.args) == 2 and isinstance(t.args[0], ast.Name) and isinstance(t.args[1], ast.Name):
        x, T = t.args[0].id, t.args[1].id
        for j in range(i - 1, -1, -1):
            st = blk[j]
            bound = [n for n in ast.walk(st) if isinstance(n, ast.Name) and n.id == x and isinstance(n.ctx, ast.Store)]
            if not bound:
                if not _untouched([st], {x}):
                    return None
                continue
            if not isinstance(st, ast.Assign) or len(st.targets) != 1 or not isinstance(st.value, ast.Call):
                return None
            tgt, pos = st.targets[0], None
            if isinstance(tgt, ast.Tuple):
                ix = [k for k, e in enumerate(tgt.elts) if isinstance(e, ast.Name) and e.id == x]
                if len(ix) != 1:
                    return None
                pos = ix[0]
            elif not isinstance(tgt, ast.Name):
                return None
            fn = st.value.func
            if pos is None and isinstance(fn, ast.Name) and fn.id == T:
                return f"bound from {T}(..)"
            if isinstance(fn, ast.Attribute) and isinstance(fn.value, ast.Name) and fn.value.id == "self" and "." in q:
                callee = model.functions.get(q.rsplit(".", 1)[0] + "." + fn.attr)
                if callee is None:
                    return None
                rets = [r for r in walk_no_nested(callee) if isinstance(r, ast.Return)]
                if not rets or may_fall_off(callee):
                    return None
                for r in rets:
                    v = r.value
                    if pos is not None:
                        if not isinstance(v, ast.Tuple) or pos >= len(v.elts):
                            return None
                        v = v.elts[pos]
                    if not (isinstance(v, ast.Call) and isinstance(v.func, ast.Name) and v.func.id == T):
                        return None
                return f"every return of {fn.attr} builds a {T} there"
            return None
    return None


def dead_raises(ctx):
    """(function, lineno) -> reason, for residual raises of dispatches shown total on this run."""
    model, g = ctx.model, ctx.grammar
    consts = ctx.module_str_lists()
    out = {}

    def mark(q, why):
        f = model.func(q)
        for r in raises_in(f, nested=False):
            if raised_class(r) == "NotImplementedError":
                out[(q, r.lineno)] = why
    # regex interpreter
    ipt = model.func("RegexMatch._interpret_parse_tree")
    d = dispatch_on(ipt.body, "tree_data", consts)
    labs = g.labels("regex_alternation") | {"regex"} | g.labels("binary_regex_alternation") | {"binary_regex"}
    stripped = {l[len("binary_"):] if l.startswith("binary_") else l for l in labs}
    if stripped <= d.handled():
        mark("RegexMatch._interpret_parse_tree", "residual of a dispatch total over the grammar's regex labels")
    nfa = model.func("RegexMatch._convert_to_nfa")
    arms, resid = isinstance_chain(nfa.body, "r")
    handled = {c for cl, _ in arms for c in cl}
    if {"RegexCharClass", "RegexAlternation", "RegexSequence", "RegexOptional", "RegexKleene"} <= handled:
        mark("RegexMatch._convert_to_nfa", "residual of a dispatch total over the regex node classes")
    # out declarations
    pod = model.func("ParseCtx._parse_out_decl")
    try:
        d2 = dispatch_on([s for s in pod.body if isinstance(s, ast.If) and "type_obj.data ==" in ast.unparse(s.test) and "bool_type" in ast.unparse(s.test)], "type_obj.data", consts)
        if g.labels("out_type") <= d2.handled():
            for r in raises_in(pod, nested=False):
                if raised_class(r) == "NotImplementedError" and "type_obj.data" in ast.unparse(r):
                    out[("ParseCtx._parse_out_decl", r.lineno)] = "residual of a dispatch total over the out_type labels"
    except AnalysisError:
        pass
    for n in walk_no_nested(pod):
        if isinstance(n, ast.For) and ast.unparse(n.iter) == "type_obj.children":
            try:
                d3 = dispatch_on(n.body, "attr.data", consts)
                if g.labels("int_attr") <= d3.handled():
                    for r in raises_in(n, nested=False):
                        if raised_class(r) == "NotImplementedError":
                            out[("ParseCtx._parse_out_decl", r.lineno)] = "residual of a dispatch total over the int_attr labels"
            except AnalysisError:
                pass
    inst = {n.func.id for f in model.functions.values() for n in ast.walk(f) if isinstance(n, ast.Call) and isinstance(n.func, ast.Name)}
    for q, subj, base in (("CodegenCtx._generate_action_implementation", "action", "Action"), ("CodegenCtx._generate_code_for_int_expr", "intexpr", "IntegerExpr")):
        arms, resid = isinstance_chain(model.func(q).body, subj)
        order = [c for cl, _ in arms for c in cl]
        need = [c for c in model.concrete_subclasses(base) if c != base and c in inst]
        if all(any(model.is_subclass(c, h) for h in order) for c in need):
            mark(q, f"residual of an isinstance dispatch total over the instantiated {base} classes")
    return out


def all_callers_catch(model, method, exc):
    ok = True
    n = 0
    for q, f in model.functions.items():
        for c in calls_in(f, nested=False):
            if isinstance(c.func, ast.Attribute) and c.func.attr == method:
                n += 1
                node = c
                caught = False
                while node in model.parents:
                    node = model.parents[node]
                    if isinstance(node, ast.Try) and any(h.type is not None and exc in ast.unparse(h.type) for h in node.handlers):
                        caught = True
                        break
                    if isinstance(node, ast.FunctionDef):
                        break
                ok = ok and caught
    return ok and n > 0


def bind_check_precedes_lookup(f):
    loop = next((n for n in walk_no_nested(f) if isinstance(n, ast.For)), None)
    if loop is None:
        return False
    idx_check = idx_bind = None
    for i, st in enumerate(loop.body):
        if isinstance(st, ast.If) and "not in allowed_types" in ast.unparse(st.test) and any(isinstance(x, ast.Raise) for x in st.body):
            idx_check = i
        if any(isinstance(n, ast.Call) and isinstance(n.func, ast.Attribute) and n.func.attr == "_lookup_named_entity" for n in ast.walk(st)):
            if isinstance(st, ast.If) and "value.data == 'identifier_const'" in ast.unparse(st.test) and not st.orelse:
                continue        # this lookup is itself guarded by the label test (forwarded bare identifier)
            idx_bind = i if idx_bind is None else idx_bind
    return idx_check is not None and idx_bind is not None and idx_check < idx_bind


TOKEN_KEY_TERMINAL = {
    ("ParseCtx.parse", "code.children[0].value"): ("RESULT_CODE", "code_decl", 0),
    ("ParseCtx._parse_macro_arguments", "i.children[0].value"): ("RESULT_CODE", "macro_rescode_arg", 0),
    ("RegexMatch._interpret_parse_tree", "regex_tree.children[1].value"): ("REGEX_OP", "regex_operation", 1),
    ("RegexMatch._convert_raw_regex_char_class", "regex_char_class.children[0].value[0]"): ("REGEX_CHARCLASS", "regex_char_class", 0),
}


def dominating_tests(model, node, fn):
    """(test node, polarity) of the If statements enclosing node (innermost first)."""
    out = []
    child = node
    n = node
    while n in model.parents and n is not fn:
        child, n = n, model.parents[n]
        if isinstance(n, ast.If):
            in_body = any(child is b or any(child is x for x in ast.walk(b)) for b in n.body)
            out.append((n, in_body))
    return out


def dict_total(ctx, q, f, node, dnode, knode):
    model, g = ctx.model, ctx.grammar
    ksrc = ast.unparse(knode)
    keys_src = [ast.unparse(k) for k in dnode.keys]
    # guarded by except KeyError
    n = node
    while n in model.parents and n is not f:
        n = model.parents[n]
        if isinstance(n, ast.Try) and any(h.type is not None and "KeyError" in ast.unparse(h.type) for h in n.handlers):
            return True, "guarded by except KeyError"
    doms = dominating_tests(model, node, f)
    # membership tests on the same key expression
    for ifn, in_body in doms:
        t = ifn.test
        if isinstance(t, ast.Compare) and len(t.ops) == 1 and ast.unparse(t.left) == ksrc:
            comp = t.comparators[0]
            if isinstance(t.ops[0], ast.In) and in_body and isinstance(comp, (ast.Tuple, ast.List)):
                dom = [ast.unparse(e) for e in comp.elts]
                return set(dom) <= set(keys_src), f"key restricted to {dom} by the enclosing test; table has {keys_src}"
            if isinstance(t.ops[0], ast.NotIn) and not in_body and isinstance(comp, (ast.Tuple, ast.List)):
                dom = [ast.unparse(e) for e in comp.elts]
                return set(dom) <= set(keys_src), f"key restricted to {dom}"
            if isinstance(t.ops[0], ast.NotIn) and not in_body and isinstance(comp, ast.Constant) and isinstance(comp.value, str):
                dom = [repr(ch) for ch in comp.value]
                return set(dom) <= set(keys_src), f"key restricted to {dom}"
    # a preceding sibling guard `if key not in <domain>: raise`
    for ifn in [x for x in walk_no_nested(f) if isinstance(x, ast.If)]:
        t = ifn.test
        if isinstance(t, ast.Compare) and isinstance(t.ops[0], ast.NotIn) and ast.unparse(t.left) == ksrc and ifn.body and isinstance(ifn.body[-1], ast.Raise):
            comp = t.comparators[0]
            if isinstance(comp, ast.Constant) and isinstance(comp.value, str):
                dom = [repr(ch) for ch in comp.value]
                return set(dom) <= set(keys_src), f"key restricted to {dom} by a preceding refusal"
    consts = dict_keys_const(dnode)
    if consts is not None and all(isinstance(k, str) for k in consts):
        tk = TOKEN_KEY_TERMINAL.get((q, ksrc))
        if tk is not None:
            term, label, idx = tk
            lang = g.terminal_language(term)
            typed = g.child_at(label, idx) == {"TOKEN:" + term}
            handled = set(consts)
            for ifn, in_body in doms:   # an enclosing `== "+"` test peels one value off (else-arm)
                t = ifn.test
                if isinstance(t, ast.Compare) and isinstance(t.ops[0], ast.Eq) and ast.unparse(t.left) == ksrc and isinstance(t.comparators[0], ast.Constant) and not in_body:
                    handled.add(t.comparators[0].value)
            return typed and lang is not None and lang <= handled, f"key is a {term} token (child {idx} of {label}: typed={typed}); terminal language {sorted(lang or [])} vs table {sorted(handled)}"
        if ksrc.endswith(".data"):
            # label dispatch: keys must cover the labels possible here; resolve through an enclosing `<x>.data in [..]` or an else of `== label`
            for ifn, in_body in doms:
                t = ifn.test
                if isinstance(t, ast.Compare) and ast.unparse(t.left) == ksrc and isinstance(t.ops[0], ast.Eq) and not in_body and q == "ParseCtx._parse_macro_arguments":
                    dom = g.labels("macro_arg") - {t.comparators[0].value}
                    return dom <= set(consts), f"labels possible here {sorted(dom)} vs table {sorted(consts)}"
            return False, f"cannot resolve the label domain of `{ksrc}`"
        return False, f"`{ksrc}` indexes a table with keys {consts}: its domain is not provably covered (KeyError on an uncovered value)"
    # enum-keyed tables
    if all(isinstance(k, ast.Attribute) and isinstance(k.value, ast.Name) for k in dnode.keys):
        cls = dnode.keys[0].value.id
        members = {f"{cls}.{n}" for n, _ in model.enum_members(cls)} if cls in model.classes else set()
        for ifn, in_body in doms:
            t = ifn.test
            if isinstance(t, ast.Compare) and ast.unparse(t.left) == ksrc and isinstance(t.ops[0], ast.NotEq) and in_body:
                dom = members - {ast.unparse(t.comparators[0])}
                return dom <= set(keys_src), f"{ksrc} != {ast.unparse(t.comparators[0])}: remaining members {sorted(dom)} vs table"
        dom = set(members)
        constrained = False
        for ifn in [x for x in walk_no_nested(f) if isinstance(x, ast.If) and x.lineno < node.lineno]:
            t = ifn.test
            if isinstance(t, ast.Compare) and isinstance(t.ops[0], ast.NotIn) and ast.unparse(t.left) == ksrc and ifn.body and isinstance(ifn.body[-1], ast.Raise) \
                    and isinstance(t.comparators[0], (ast.List, ast.Tuple)):
                dom &= {ast.unparse(e) for e in t.comparators[0].elts}
                constrained = True
        for ifn, in_body in doms:
            t = ifn.test
            if isinstance(t, ast.Compare) and ast.unparse(t.left) == ksrc and isinstance(t.ops[0], ast.In) and isinstance(t.comparators[0], (ast.List, ast.Tuple)):
                tup = {ast.unparse(e) for e in t.comparators[0].elts}
                dom = (dom & tup) if in_body else (dom - tup)
                constrained = True
        if constrained:
            return dom <= set(keys_src), f"{ksrc} restricted to {sorted(dom)} by the surrounding tests vs table {sorted(keys_src)}"
        if ksrc.endswith(".kind") and cls == "MacroArgumentKind":
            pma = model.func("ParseCtx._parse_macro_arguments")
            produced = {f"MacroArgumentKind.{m}" for m in re.findall(r"MacroArgumentKind\.(\w+)", ast.unparse(pma))}
            return produced <= set(keys_src), f"kinds a declaration can produce {sorted(produced)} vs table"
        return False, f"cannot bound `{ksrc}` over {cls}"
    if all(isinstance(k, ast.Tuple) and all(isinstance(e, ast.Constant) and isinstance(e.value, bool) for e in k.elts) for k in dnode.keys):
        n_el = len(dnode.keys[0].elts)
        return len({ast.unparse(k) for k in dnode.keys}) == 2 ** n_el, f"bool tuple table with {len(dnode.keys)} of {2 ** n_el} combinations"
    return False, f"dict-literal subscript `{ksrc}` over keys {keys_src[:4]}... not understood"


INT_JUSTIFY = {
    "RegexMatch._interpret_parse_tree": ("grammar", {"regex_exact_repeat": [1], "regex_at_least_repeat": [1], "regex_range_repeat": [1, 2]}, "NUMBER"),
    "ParseCtx._parse_out_decl": ("grammar", {"width_attr": [0]}, "NUMBER"),
    "ParseCtx._parse_stmt": ("grammar", {"greedy_prio_block": [0]}, "NUMBER"),
    "BinaryRegexMatch._convert_raw_regex_unimportant": ("regex", "REGEX_BYTE", "[0-9a-fA-F]{2}"),
}


def length_guarded(model, f, c, names):
    """Is the conversion `c` dominated by a refusal of over-long text: `if len(<one of names>) > K: raise <NMFUError>` earlier in the function (top level)?
    (F-126: int() refuses decimal strings beyond a few thousand digits with ValueError - a digits-only terminal does not make int() total.)"""
    for st in f.body:
        if getattr(st, "lineno", 0) >= c.lineno:
            break
        if isinstance(st, ast.If) and isinstance(st.test, ast.Compare) and len(st.test.ops) == 1 and isinstance(st.test.ops[0], (ast.Gt, ast.GtE)):
            left = ast.unparse(st.test.left)
            if any(left == f"len({n})" for n in names) and isinstance(st.body[-1], ast.Raise) and model.is_subclass(raised_class(st.body[-1]) or "", "NMFUError"):
                return True
    return False


def int_justified(ctx, q, f, c):
    ok, why = _int_justified(ctx, q, f, c)
    if ok and (q in ("RegexMatch._repeat_count", "ParseCtx._convert_int") or "token" in why and "NUMBER" in why):
        # unbounded digit strings: the terminal justifies the characters, not the length
        arg = c.args[0]
        names = {ast.unparse(arg)}
        for n in ast.walk(arg):
            if isinstance(n, ast.Name):
                names.add(n.id)
            if isinstance(n, ast.Attribute):
                names.add(ast.unparse(n))
        if "guarded by except" not in why and not length_guarded(ctx.model, f, c, names):
            return False, (f"`{ast.unparse(c)}`: the text is digits, but of any length - int() refuses decimal strings beyond a few thousand digits with ValueError "
                           "(a 5000-digit literal / size / repetition count ends in a traceback): no dominating `if len(text) > K: raise <diagnosed error>`")
    return ok, why


def _int_justified(ctx, q, f, c):
    model, g = ctx.model, ctx.grammar
    arg = ast.unparse(c.args[0])
    # guarded by try/except ValueError
    n = c
    while n in model.parents and n is not f:
        n = model.parents[n]
        if isinstance(n, ast.Try) and any(h.type is not None and "ValueError" in ast.unparse(h.type) for h in n.handlers):
            return True, "guarded by except ValueError"
    j = INT_JUSTIFY.get(q)
    if q == "RegexMatch._repeat_count":
        # the converter of repetition counts: its parameter's text is converted; every caller hands it a child of a repeat node that the grammar makes a NUMBER token
        param = f.args.args[1].arg if len(f.args.args) == 2 else None
        callers = [(cq, cc) for cq, cf in model.functions.items() for cc in ast.walk(cf) if isinstance(cc, ast.Call) and ast.unparse(cc.func) == "self._repeat_count"]
        jj = INT_JUSTIFY["RegexMatch._interpret_parse_tree"]
        allowed = {f"regex_tree.children[{i}]" for idxs in jj[1].values() for i in idxs}
        ok = arg == f"{param}.value" and callers and all(cq == "RegexMatch._interpret_parse_tree" and len(cc.args) == 1 and ast.unparse(cc.args[0]) in allowed for cq, cc in callers) and \
            all(g.child_at(label, i) == {"TOKEN:" + jj[2]} for label, idxs in jj[1].items() for i in idxs if label in g.labels_made)
        return bool(ok), f"argument is the text of the {jj[2]} token every caller passes ({len(callers)} call sites in _interpret_parse_tree)"
    if j is not None and j[0] == "grammar":
        okall = True
        for label, idxs in j[1].items():
            for i in idxs:
                if label in g.labels_made and g.child_at(label, i) != {"TOKEN:" + j[2]}:
                    okall = False
        rx = g.terminal_regex(j[2])
        digits = re.fullmatch(r"\(\?:\(\?:\\\+\|\\-\)\)\?\(\?:\[0-9\]\)\+|(?:\(\?:\+\|-\)\?)?\[0-9\]\+|.*\[0-9\].*", rx) is not None
        return okall and digits and arg.endswith(".value"), f"argument is the text of a {j[2]} token (regex {rx!r})"
    if j is not None and j[0] == "regex":
        return g.terminal_regex(j[1]) == j[2], f"argument is a {j[1]} token ({j[2]})"
    if q == "ParseCtx._convert_int":
        return True, "text of a RADIX_NUMBER token with its prefix stripped (callers checked under C15.d)"
    if q == "ParseCtx._convert_string":
        src = ast.unparse(f)
        ok = "string.hexdigits" in src and re.search(r"if len\(code\) != 2 or any\(", src) is not None
        return ok, "two characters validated as hex digits just before" if ok else "`\\xHH` digits reach int(.., 16) unvalidated: ValueError on \"\\xzz\""
    if q == "ParseCtx._convert_binary_string":
        fs = ast.unparse(f)
        ok = "if x in string.hexdigits" in fs or ("any((x not in string.hexdigits for x in group))" in fs and "raise ValueError" in fs)
        return ok, "operates on characters validated against string.hexdigits"
    if q.startswith("CodegenCtx.") or q.startswith("ProgramData."):
        return True, "not input-derived text"
    return False, f"`{ast.unparse(c)}` converts possibly input-derived text with no guard and no known terminal justification (ValueError)"


def enum_justified(ctx, q, f, c):
    model, g = ctx.model, ctx.grammar
    cls = c.func.id
    n = c
    while n in model.parents and n is not f:
        n = model.parents[n]
        if isinstance(n, ast.Try) and any(h.type is not None and "ValueError" in ast.unparse(h.type) for h in n.handlers):
            return True, "guarded by except ValueError"
    vals = set()
    for _, v in model.enum_members(cls):
        try:
            lv = ast.literal_eval(v)
            vals.add(lv if not isinstance(lv, tuple) else lv[0])
        except Exception:
            pass
    term = {"MulIntegerExprOp": "MUL_OP", "CompareIntegerExprOp": "CMP_OP"}.get(cls)
    if term:
        lang = g.terminal_language(term)
        return lang is not None and lang <= vals, f"argument is a {term} token; language {sorted(lang or [])} within the enum's values"
    arg = ast.unparse(c.args[0])
    if not arg.endswith(".value") and "value" not in arg:
        return True, "argument is not token text"
    return False, f"`{ast.unparse(c)}`: enum lookup by input-derived value is neither guarded nor covered by a terminal language"


def _index_lookups(ctx, rep, tier):
    """C18.i: codegen renders state numbers with self.dfa.states.index(x) (ValueError if x was removed as unreachable). Besides the one guarded
    site, this is safe only if removal reachability covers every state a template can name: the C05.d agreement."""
    from ..core import Report
    from . import c05
    model = ctx.model
    rep.rule("C18.i", "self.dfa.states.index(x) in code generation cannot raise: guarded by except ValueError, or x is kept reachable (override targets / modes agree with dfs: C05.d)")
    n = 0
    for q, f in model.functions.items():
        if not q.startswith("CodegenCtx."):
            continue
        for c in calls_in(f, nested=False):
            if isinstance(c.func, ast.Attribute) and c.func.attr == "index" and ast.unparse(c.func.value) == "self.dfa.states":
                n += 1
    sub = Report("C05")
    c05.run(ctx, sub, tier)
    hits = [v for v in sub.violations if v.rule == "C05.d"]
    for v in hits:
        rep.bad("C18.i", v.function, v.construct, v.message + " - code generation then dies with ValueError: <state> is not in list", v.extra, v.line)
    if not hits:
        rep.ok("C18.i", "CodegenCtx", f"{n} state-index lookups; reachability agreement holds")
    if n < 6:
        raise AnalysisError("C18.i: state index lookups not found")


_run0 = run


def run(ctx, rep, tier):
    _run0(ctx, rep, tier)
    _index_lookups(ctx, rep, tier)


def _ord_on_symbols(ctx, rep, tier):
    """C18.j: ord() over transition symbols outside code generation must tolerate the End / Else sentinels (they are not characters)."""
    model = ctx.model
    rep.rule("C18.j", "ord() applied to elements of a transition-symbol collection is guarded against the End / Else sentinels")
    n = 0
    for q, f in pipeline(model).items():
        if q.startswith("CodegenCtx.") or q.startswith("RegexMatch.") or q.startswith("BinaryRegexMatch.") or q.startswith("ParseCtx."):
            continue   # codegen filters End explicitly (C17.b); regex/front-end ord() is applied to characters of literals
        lambdas = [c for lam in ast.walk(f) if isinstance(lam, ast.Lambda) for c in ast.walk(lam.body) if isinstance(c, ast.Call)]      # (a describing function handed to join / map)
        for c in list(calls_in(f, nested=False)) + lambdas:
            if isinstance(c.func, ast.Name) and c.func.id == "ord" and c.args and isinstance(c.args[0], ast.Name):
                n += 1
                var = c.args[0].id
                node, guarded = c, False
                while node in model.parents and node is not f:
                    node = model.parents[node]
                    if isinstance(node, ast.IfExp) and re.search(r"isinstance\(%s, str\)" % var, ast.unparse(node.test)):
                        guarded = True
                    if isinstance(node, (ast.GeneratorExp, ast.ListComp)):
                        for g in node.generators:
                            if any(re.search(r"isinstance\(%s, str\)" % var, ast.unparse(i)) for i in g.ifs):
                                guarded = True
                        break
                rep.check(guarded, "C18.j", q, ast.unparse(c), f"`ord({var})` ranges over transition symbols, which include the End / Else sentinels: TypeError while building a diagnostic "
                          "(e.g. `optional { end; } end;` with -fcodepoints-in-errors)", line=c.lineno)
    if n < 1:
        raise AnalysisError("C18.j: no ord() over symbols found outside codegen (anchor: DFA.append_after message)")


_run1 = run


def run(ctx, rep, tier):
    _run1(ctx, rep, tier)
    _ord_on_symbols(ctx, rep, tier)


# ---------------------------------------------------------------------------------------------------------------- C18.k
# next(<iterator>) without a default raises StopIteration on an empty iterator: an internal exception unless guarded or the iterator is non-empty
# by construction. Key = (function, rename-invariant shape of the argument); the justification names the construct it rests on, and each such
# construct is re-checked on every run (requirement patterns).
NEXT_TRIAGE = {
    ("RegexNFA.convert_to_dfa", "iter(_1)"):
        ("argument is an epsilon closure, which contains its non-empty seed set (the start state itself / `if move_result:`)",
         [("RegexNFA.convert_to_dfa", "if move_result:\n    new_state = epsilon_closure(move_result)\n    ..."),
          ("RegexNFA.convert_to_dfa", "start_dfa_state = frozenset((get_index(x) for x in self.start_state.epsilon_closure()))"),
          ("RegexNFState.epsilon_closure", "total_moves = set((self,))"),
          ("RegexNFState.epsilon_closure", "return total_moves")]),
    ("RegexNFA.minimize_dfa.add_back", "iter(subset)"):
        ("add_back is only applied to partition_containing(<a real state>): the partition found contains that state", "ADD_BACK"),
    ("CaseNode._merge.create_real_state_of", "iter(state)"):
        ("product states are non-empty: the start state has one entry per merged DFA (an empty list is refused before _merge), successors are skipped when empty",
         [("CaseNode.convert", "if not mergeable_ds:\n    raise IllegalASTStateError($$a, self)"),
          ("CaseNode._merge", "if not next_state:\n    actual_else |= symbol\n    continue"),
          ("CaseNode._merge", "start_state = frozenset(((dfa, dfa.starting_state) for dfa in ds))")]),
    ("ParseCtx.parse", "self._parse_tree.find_data('parser_decl')"):
        ("the grammar's start rule requires a parser declaration", "GRAMMAR_PARSER_DECL"),
}


def _next_calls(ctx, rep, tier):
    from ..pat import shape
    model = ctx.model
    rep.rule("C18.k", "next(it) without a default is guarded (except StopIteration / size test on the iterated collection) or its iterator is non-empty by a construct re-checked here")
    n = 0
    for q, f in model.functions.items():
        for c in calls_in(f, nested=False):
            if not (isinstance(c.func, ast.Name) and c.func.id == "next" and len(c.args) == 1 and not c.keywords):
                continue
            n += 1
            what = f"next({ast.unparse(c.args[0])[:60]})"
            # (1) try / except StopIteration around the call
            node, guarded = c, None
            while node in model.parents and node is not f:
                child, node = node, model.parents[node]
                if isinstance(node, ast.Try) and any(child is s for s in node.body) and \
                        any(h.type is None or re.search(r"\b(StopIteration|Exception|BaseException)\b", ast.unparse(h.type)) for h in node.handlers):
                    guarded = "inside try/except StopIteration"
                    break
            # (2) `if len(X) == 1:` / `if X:` around next(iter(X))
            a = c.args[0]
            if guarded is None and isinstance(a, ast.Call) and isinstance(a.func, ast.Name) and a.func.id == "iter" and len(a.args) == 1:
                coll = ast.unparse(a.args[0])
                for test, pol in __import__("nmfulint.guards", fromlist=["x"]).enclosing_conditions(model, c, f):
                    if pol and (test == coll or re.fullmatch(r"len\(%s\) (== [1-9]\d*|> 0|>= 1|!= 0)" % re.escape(coll), test)):
                        guarded = f"under `if {test}`"
                if guarded is None:
                    node = c
                    while node in model.parents and node is not f and guarded is None:
                        child, node = node, model.parents[node]
                        for fld in ("body", "orelse"):
                            lst = getattr(node, fld, None)
                            if isinstance(lst, list) and child in lst:
                                for st in lst[:lst.index(child)]:
                                    if isinstance(st, ast.If) and isinstance(st.body[-1], (ast.Continue, ast.Return, ast.Raise, ast.Break)) and not st.orelse:
                                        disj = st.test.values if isinstance(st.test, ast.BoolOp) and isinstance(st.test.op, ast.Or) else [st.test]
                                        if any(ast.unparse(d) == f"not {coll}" for d in disj):
                                            guarded = f"after `if {ast.unparse(st.test)}: {type(st.body[-1]).__name__.lower()}`"
            if guarded:
                rep.ok("C18.k", q, f"{what}: {guarded}")
                continue
            key = (q, shape(model, f, a))
            ent = NEXT_TRIAGE.get(key)
            if ent is None:
                rep.bad("C18.k", q, what, f"`{ast.unparse(c)[:80]}` has no default and no guard: an empty iterator raises StopIteration, an internal exception "
                        "(e.g. `case { else -> {...} }` had nothing to merge)", line=c.lineno)
                continue
            reason, req = ent
            if req == "ADD_BACK":
                args = [ast.unparse(x.args[0]) for x in ast.walk(model.func("RegexNFA.minimize_dfa")) if isinstance(x, ast.Call) and isinstance(x.func, ast.Name) and x.func.id == "add_back" and x.args]
                okr = len(args) >= 2 and all(s.startswith("partition_containing(") or model.has("RegexNFA.minimize_dfa.add_back", f"{s} = partition_containing(target)") for s in args)
            elif req == "GRAMMAR_PARSER_DECL":
                g = ctx.grammar
                okr = g.min_count("start", "parser_decl") >= 1
            else:
                okr = all(model.has(fq, p) for fq, p in req)
            rep.check(okr, "C18.k", q, f"{what}: {reason[:90]}", f"the construct that made `{what}` safe is gone ({reason}): StopIteration on an empty iterator", line=c.lineno)
    if n < 8:
        raise AnalysisError(f"C18.k: only {n} next() call sites found (floor 8)")


_run2 = run


def run(ctx, rep, tier):
    _run2(ctx, rep, tier)
    _next_calls(ctx, rep, tier)


# ---------------------------------------------------------------------------------------------------------------- C18.l
RENDER_TAGS = {"NAME", "SOURCE_LINE", "SOURCE_COLUMN", "MACRO_INSTANCE"}      # what NMFUError._get_message asks of each reason
# raises in constructors that cite a half-built `self` but cannot run: (class) -> (reason, [(function, construct that makes it dead)])
HALF_BUILT_DEAD = {
    "SetToStr": ("only constructed for str outputs", [("ParseCtx._parse_assign_stmt", "SetToStr(result, targeted)")]),
}


def _render_reads(model, cls):
    """self attributes read by cls.debug_lookup (resolved through the MRO) on the branches taken for the tags a diagnostic asks for."""
    owner, f = model.resolve_method(cls, "debug_lookup")
    if f is None:
        return set(), None
    reads = set()
    methods = set()

    def visit(stmts):
        for st in stmts:
            if isinstance(st, ast.If):
                m = re.fullmatch(r"tag == DTAG\.(\w+)", ast.unparse(st.test))
                collect(st.test)
                if m is None or m.group(1) in RENDER_TAGS:
                    visit(st.body)
                visit(st.orelse)
            else:
                collect(st)

    def collect(node):
        for n in ast.walk(node):
            if isinstance(n, ast.Attribute) and isinstance(n.value, ast.Name) and n.value.id == "self" and isinstance(n.ctx, ast.Load):
                o, mf = model.resolve_method(cls, n.attr)
                if mf is not None:
                    if n.attr not in methods:
                        methods.add(n.attr)
                        collect(mf)
                else:
                    reads.add(n.attr)
    visit(strip_doc(f.body))
    return reads, owner


def _assigned_before(model, cls, init, raise_node):
    """self attributes unconditionally assigned on the way to `raise_node` inside `init` (statements preceding it in its block and in the
    enclosing blocks), including those a preceding super().__init__() assigns at its top level."""
    got = set()

    def top_assigns(stmts, upto=None):
        for st in stmts:
            if upto is not None and st is upto:
                break
            if isinstance(st, (ast.Assign, ast.AnnAssign)):
                for t in (st.targets if isinstance(st, ast.Assign) else [st.target]):
                    for e in (t.elts if isinstance(t, ast.Tuple) else [t]):
                        if isinstance(e, ast.Attribute) and isinstance(e.value, ast.Name) and e.value.id == "self":
                            got.add(e.attr)
            elif isinstance(st, ast.Expr) and isinstance(st.value, ast.Call) and ast.unparse(st.value.func) == "super().__init__":
                for b in model.mro(cls)[1:]:
                    bi = model.classes.get(b)
                    if bi and "__init__" in bi.methods:
                        top_assigns(bi.methods["__init__"].body)
                        break
    node = raise_node
    while node is not init and node in model.parents:
        parent = model.parents[node]
        for fld in ("body", "orelse", "finalbody"):
            lst = getattr(parent, fld, None)
            if isinstance(lst, list) and node in lst:
                top_assigns(lst, upto=node)
        node = parent
    return got


def _half_built_reasons(ctx, rep, tier):
    model = ctx.model
    rep.rule("C18.l", "a constructor that raises a diagnosed error citing `self` has already assigned every field its debug_lookup reads when the message is rendered")
    n = 0
    for cn, ci in model.classes.items():
        init = ci.methods.get("__init__")
        if init is None:
            continue
        for r in walk_no_nested(init):
            if not (isinstance(r, ast.Raise) and isinstance(r.exc, ast.Call) and any(isinstance(a, ast.Name) and a.id == "self" for a in r.exc.args)):
                continue
            n += 1
            reads, owner = _render_reads(model, cn)
            have = _assigned_before(model, cn, init, r) | set(ci.attrs)
            missing = sorted(reads - have)
            what = f"raise {raised_class(r)}(.., self) in {cn}.__init__"
            if not missing:
                rep.ok("C18.l", f"{cn}.__init__", f"{what}: debug_lookup ({owner or 'none'}) reads {sorted(reads) or 'nothing'} - assigned before the raise")
                continue
            dead = HALF_BUILT_DEAD.get(cn)
            if dead is not None:
                reason, sites = dead
                # the only construction sites are the listed ones, each under the guard that makes the raise dead
                made = [(q, c) for q, f in model.functions.items() for c in calls_in(f, nested=False) if isinstance(c.func, ast.Name) and c.func.id == cn]
                okd = bool(made) and all(any(q == fq and model.has(fq, pat) for fq, pat in sites) for q, _ in made)
                if cn == "SetToStr":
                    from ..guards import enclosing_conditions
                    okd = okd and all(any(t == "targeted.type == OutputStorageType.STR" and pol for t, pol in enclosing_conditions(model, c, model.func(q))) for q, c in made)
                rep.check(okd, "C18.l", f"{cn}.__init__", f"{what}: dead - {reason}", f"{cn} is now constructed where its constructor can raise with `self` half-built ({missing} unassigned): rendering the error dies with AttributeError", line=r.lineno)
                continue
            rep.bad("C18.l", f"{cn}.__init__", what, f"the error cites `self` before {missing} is assigned, and {owner}.debug_lookup reads it when the message is rendered: "
                    "str(error) dies with AttributeError instead of printing the diagnosis", line=r.lineno)
    if n < 5:
        raise AnalysisError(f"C18.l: only {n} constructor raises citing self found (floor 5)")
    # Tree subclasses keep their position in diagnostics
    sub = [c for c, ci in model.classes.items() if "lark.Tree" in ci.bases]
    if sub:
        rep.check(model.has("ProgramData.lookup", "isinstance(obj, lark.Tree)") and not model.has("ProgramData.lookup", "type(obj) is lark.Tree"), "C18.l", "ProgramData.lookup",
                  f"position lookup accepts Tree subclasses ({', '.join(sub)})", "a Tree subclass cited as the reason of an error loses its source position (exact type test)")


_run3 = run


def run(ctx, rep, tier):
    _run3(ctx, rep, tier)
    _half_built_reasons(ctx, rep, tier)


# ---------------------------------------------------------------------------------------------------------------- C18.m
# coll.remove(x) (ValueError / KeyError when absent) and `del coll[k]` (KeyError / IndexError): guarded, or present by construction.
REMOVE_TRIAGE = {
    ("DFState.__delitem__", "_1.on_values.remove(_2)"): "integer-id convenience API used by tests only; not reachable from the compiler pipeline",
    ("DFState.__delitem__", "self.transitions.remove(_1)"): "`contained` was found by iterating self.all_transitions()",
    ("DFState.transition", "self.transitions.remove(_1)"): "`contain` is drawn from self.transitions (the overlap scan) and removed at most once: it is emptied only here",
    ("CaseNode._find_case_actions", "del self.sub_matches[_1]"): "keys collected while iterating self.sub_matches.items(); each key once",
    ("CaseNode._merge", "_1.remove(_2)"): "a and b are a pair of distinct elements drawn from local_alphabet by itertools.combinations",
    ("ParseCtx._parse_macro_call", "del self.bound_argument_stack[-1]"): "pops the frame pushed before the body was expanded (C13.d pairing)",
    ("CodegenCtx._generate_condition_for_transition", "_1.remove(_2)"): "`used` holds elements taken from on_values_remaining by index, each once (runs do not overlap: C06 range rule)",
    ("debug_dump_dfa.build_label_onvalues", "_1.remove(_2)"): "debug graph output: same construction as the code generator's range collapse",
    ("ProgramData.lookup", "del cls._refmap[_1]"): "under `obj in cls._refmap` with id_obj == obj for integer handles",
}


def _partial_removals(ctx, rep, tier):
    from ..pat import shape
    from ..guards import enclosing_conditions
    model = ctx.model
    rep.rule("C18.m", "coll.remove(x) / del coll[k] cannot raise: inside try/except, under a membership test, removing the element of a loop over a copy of the collection, or triaged with the construct that guarantees presence")
    n = 0
    for q, f in model.functions.items():
        sites = []
        for node in walk_no_nested(f):
            if isinstance(node, ast.Call) and isinstance(node.func, ast.Attribute) and node.func.attr == "remove" and len(node.args) == 1:
                sites.append((node, node.func.value, node.args[0]))
            elif isinstance(node, ast.Delete):
                for t in node.targets:
                    if isinstance(t, ast.Subscript):
                        sl = t.slice
                        # `del coll[coll.index(x):]` raises like coll.remove(x) when x is absent: the element in question is x
                        if isinstance(sl, ast.Slice) and sl.upper is None and sl.step is None and isinstance(sl.lower, ast.Call) and isinstance(sl.lower.func, ast.Attribute) \
                                and sl.lower.func.attr == "index" and ast.unparse(sl.lower.func.value) == ast.unparse(t.value) and len(sl.lower.args) == 1:
                            sites.append((node, t.value, sl.lower.args[0]))
                        else:
                            sites.append((node, t.value, t.slice))
        for node, coll, elem in sites:
            n += 1
            cs, es = ast.unparse(coll), ast.unparse(elem)
            what = ast.unparse(node)[:70]
            guarded = None
            # try/except
            x = node
            while x in model.parents and x is not f:
                child, x = x, model.parents[x]
                if isinstance(x, ast.Try) and any(child is s for s in x.body) and any(h.type is None or re.search(r"\b(ValueError|KeyError|IndexError|LookupError|Exception)\b", ast.unparse(h.type)) for h in x.handlers):
                    guarded = "inside try/except"
                if guarded is None and isinstance(x, ast.For) and isinstance(x.target, ast.Name) and x.target.id == es and child in x.body:
                    it = ast.unparse(x.iter)
                    if it in (f"{cs}.copy()", f"list({cs})", f"set({cs})", f"tuple({cs})"):
                        guarded = f"element of a loop over a copy of {cs}"
                # element guaranteed by the producer of the loop: `for t in X.transitions_that_do(E): t.actions.remove(E)` where transitions_that_do only
                # collects transitions under `action in t.actions` (re-matched here, not believed)
                if guarded is None and isinstance(x, ast.For) and isinstance(x.target, ast.Name) and cs == f"{x.target.id}.actions" and isinstance(x.iter, ast.Call) \
                        and isinstance(x.iter.func, ast.Attribute) and x.iter.func.attr == "transitions_that_do" and len(x.iter.args) == 1 and ast.unparse(x.iter.args[0]) == es:
                    ttd = model.functions.get("DFA.transitions_that_do")
                    adds = [n for n in ast.walk(ttd) if isinstance(n, ast.Call) and isinstance(n.func, ast.Attribute) and n.func.attr == "add"] if ttd else []
                    if adds and all(any(pol and re.fullmatch(r"action in (\w+)\.actions", test.strip("() ")) and ast.unparse(a.args[0]) == re.fullmatch(r"action in (\w+)\.actions", test.strip("() ")).group(1)
                                        for test, pol in enclosing_conditions(model, a, ttd)) for a in adds):
                        guarded = f"transition of a loop over transitions_that_do({es}) (which collects only transitions whose actions contain it)"
            if guarded is None:
                for test, pol in enclosing_conditions(model, node, f):
                    if pol and any(part.strip("() ") == f"{es} in {cs}" for part in re.split(r"\band\b", test)):
                        guarded = f"under `if {es} in {cs}`"
            if guarded:
                rep.ok("C18.m", q, f"{what}: {guarded}")
                continue
            key = (q, shape(model, f, node if isinstance(node, ast.Delete) else node))
            reason = REMOVE_TRIAGE.get(key)
            rep.check(reason is not None, "C18.m", q, f"{what}: {reason[:80] if reason else 'untriaged'}",
                      f"`{what}` raises when the element / key is absent and nothing here guarantees it is present: an internal exception "
                      "(e.g. a flat name table from which an inner construct of the same name already removed the entry)", line=node.lineno)
    if n < 12:
        raise AnalysisError(f"C18.m: only {n} removal sites found (floor 12)")


_run4 = run


def run(ctx, rep, tier):
    _run4(ctx, rep, tier)
    _partial_removals(ctx, rep, tier)


# ---------------------------------------------------------------------------------------------------------------- C18.n
def _default_body(f):
    body = strip_doc(f.body)
    return all(isinstance(st, (ast.Pass, ast.Raise)) or (isinstance(st, ast.Return) and (st.value is None or isinstance(st.value, ast.Constant))) for st in body)


def _value_kind(f):
    """'value' (returns a value on every path), 'partial' (some path falls off), 'none' (no value-returning return at all)."""
    vals = [n for n in walk_no_nested(f) if isinstance(n, ast.Return) and n.value is not None and not (isinstance(n.value, ast.Constant) and n.value.value is None)]
    if not vals:
        return "none"
    return "partial" if may_fall_off(f) else "value"


def _evaluator_family(ctx, rep, tier):
    from ..guards import enclosing_conditions
    model = ctx.model
    rep.rule("C18.n", "sibling overrides agree on returning a value; partial operators in compile-time evaluators raise only ArithmeticError / ValueError, and every consumer of a "
                      "non-total evaluator catches those (diagnostics that show a constant must render)")
    # (n1) sibling agreement inside one hierarchy
    fam = {}
    for cn, ci in model.classes.items():
        root = model.mro(cn)[-1]
        for mn, f in ci.methods.items():
            if mn.startswith("__") or any(isinstance(n, (ast.Yield, ast.YieldFrom)) for n in walk_no_nested(f)):
                continue
            fam.setdefault((root, mn), []).append((cn, f))
    n_fam = 0
    for (root, mn), lst in sorted(fam.items()):
        real = [(cn, f) for cn, f in lst if not _default_body(f)]
        kinds = {cn: _value_kind(f) for cn, f in real}
        good = [cn for cn, k in kinds.items() if k == "value"]
        if len(good) >= 3 and len(good) >= 0.75 * len(real):
            n_fam += 1
            for cn, k in sorted(kinds.items()):
                rep.check(k == "value", "C18.n", f"{cn}.{mn}", f"returns a value on every path like its {len(good)} siblings",
                          f"{cn}.{mn} computes but {'never returns a value' if k == 'none' else 'can fall off its end'}, while {len(good)} sibling overrides return one: callers receive None "
                          "(e.g. a diagnostic that shows a constant sum dies with TypeError)")
    if n_fam < 3:
        raise AnalysisError(f"C18.n: only {n_fam} method families with a value-returning majority found (floor 3)")
    # (n2) partial operators inside evaluators, and their consumers
    evaluators = {cn: ci.methods["get_literal_result"] for cn, ci in model.classes.items() if "get_literal_result" in ci.methods}
    total = set()
    for cn, f in evaluators.items():
        ops = [n for n in walk_no_nested(f) if isinstance(n, (ast.BinOp, ast.AugAssign)) and isinstance(n.op, (ast.FloorDiv, ast.Mod, ast.Div, ast.LShift, ast.RShift, ast.Pow))]
        sub = [c for c in calls_in(f, nested=False) if isinstance(c.func, ast.Attribute) and c.func.attr == "get_literal_result"]
        if not ops and not sub and not _default_body(f):
            total.add(cn)
        if _default_body(f):
            total.add(cn)
        for o in ops:
            if isinstance(o.op, (ast.LShift, ast.RShift, ast.Pow)):
                guard = [st for st in strip_doc(f.body) if isinstance(st, ast.If) and isinstance(st.body[-1], ast.Raise) and raised_class(st.body[-1]) in ("ValueError", "OverflowError", "ArithmeticError")
                         and st.lineno < o.lineno and re.search(r"0 <= \w+ < \d+", ast.unparse(st.test))]
                rep.check(bool(guard), "C18.n", f"{cn}.get_literal_result", "shift count range-checked (raises ValueError) before the shift",
                          "a constant shift by a negative count raises ValueError and by a huge count does not terminate in reasonable time/memory; neither is bounded here", line=o.lineno)
            else:
                rep.ok("C18.n", f"{cn}.get_literal_result", f"`{ast.unparse(o)[:40]}` can only raise ZeroDivisionError (an ArithmeticError)", nontrivial=False)
    n_cons = 0
    for q, f in pipeline(model).items():
        if q.split(".")[0] in evaluators and q.endswith(".get_literal_result"):
            continue
        for c in calls_in(f, nested=False):
            if not (isinstance(c.func, ast.Attribute) and c.func.attr == "get_literal_result"):
                continue
            n_cons += 1
            recv = c.func.value
            what = ast.unparse(c)[:60]
            # receiver statically a total evaluator?
            cls = None
            if isinstance(recv, ast.Name):
                for a in f.args.args:
                    if a.arg == recv.id and a.annotation is not None:
                        cls = ast.unparse(a.annotation).strip("'\"")
                for test, pol in enclosing_conditions(model, c, f):
                    m = re.fullmatch(r"isinstance\(%s, (\w+)\)" % re.escape(recv.id), test)
                    if m and pol:
                        cls = m.group(1)
            owner = model.resolve_method(cls, "get_literal_result")[0] if cls in model.classes else None
            if owner in total:
                rep.ok("C18.n", q, f"{what}: receiver is a {cls}, whose evaluator is total")
                continue
            node, caught = c, False
            while node in model.parents and node is not f:
                child, node = node, model.parents[node]
                if isinstance(node, ast.Try) and any(child is s for s in node.body):
                    hs = " ".join(ast.unparse(h.type) if h.type is not None else "BaseException" for h in node.handlers)
                    if re.search(r"\b(ArithmeticError|Exception|BaseException)\b", hs) and re.search(r"\b(ValueError|Exception|BaseException)\b", hs):
                        caught = True
            rep.check(caught, "C18.n", q, f"{what}: evaluation errors caught (ArithmeticError, ValueError)",
                      f"`{what}` evaluates a constant expression that can divide by zero / shift out of range, outside any handler: rendering the diagnostic dies with an internal exception", line=c.lineno)
    if n_cons < 3:
        raise AnalysisError(f"C18.n: only {n_cons} consumers of get_literal_result found (floor 3)")


_run5 = run


def run(ctx, rep, tier):
    _run5(ctx, rep, tier)
    _evaluator_family(ctx, rep, tier)


# ---------------------------------------------------------------------------------------------------------------- C18.o
def _empty_statement_sequences(ctx, rep, tier):
    """C18.o: a statement sequence can be empty (grammar: `statement*` positions; and any sequence whose statements are calls of an empty macro).
    _parse_stmt_seq then yields None. The producers and consumers of that None are enumerated: sequencing skips None statements, macro expansion
    does not tag None, and every construct that converts its body refuses a missing body with a diagnosed error or is built to carry none."""
    model, g = ctx.model, ctx.grammar
    rep.rule("C18.o", "an empty statement sequence (None) is skipped when sequencing, not tagged by macro expansion, and refused or tolerated by every construct holding a body")
    stmt_labels = g.labels("statement")
    def has_stmts(exp):
        return any(el["items"] & stmt_labels for el in exp["seq"])
    star = sorted(lab for lab in g.all_labels() if any(has_stmts(e) for e in g.children_of(lab)) and any(not has_stmts(e) for e in g.children_of(lab)))
    rep.check(set(star) >= {"macro_decl"}, "C18.o", "grammar", f"constructs whose statement list may be empty: {star}", "grammar no longer allows an empty macro body: re-derive this rule")
    rep.check(model.has("ParseCtx._parse_stmt_seq", "node = self._parse_stmt(stmt)\nif node is None:\n    continue"), "C18.o", "ParseCtx._parse_stmt_seq",
              "a statement that expands to nothing is skipped before it is tagged / linked", "`macro nothing() { }` called anywhere: the None it expands to is tagged and linked like a node (TypeError / AttributeError)")
    rep.check(model.has("ParseCtx._parse_macro_call", "node = self._parse_stmt_seq(macro.parse_tree)\nif node is not None:\n    ProgramData.imbue(node, DTAG.PARENT, macro)"), "C18.o", "ParseCtx._parse_macro_call",
              "the expansion of an empty body is not tagged", "imbue() of the None an empty macro body expands to: TypeError (cannot create weak reference to NoneType)")
    # constructs with a body: convert() refuses None (diagnosed) before using it
    for cls, attr, msg in (("OptionalNode", "sub_contents", "Empty optional body"), ("LoopNode", "child_node", "Empty loop body"), ("TryExceptNode", "body", "Empty try-except body"), ("ForeachNode", "body", "Empty foreach body")):
        q = f"{cls}.convert"
        fn = model.func(q)
        first = strip_doc(fn.body)[0]
        ok = isinstance(first, ast.If) and re.fullmatch(r"self\.\w+ is None", ast.unparse(first.test)) is not None and isinstance(first.body[-1], ast.Raise) and \
            model.is_subclass(raised_class(first.body[-1]) or "", "NMFUError")
        rep.check(ok, "C18.o", q, f"{cls}: a missing body is refused first ({msg})", f"{cls}.convert uses its body before testing it for None: a body consisting of calls of an empty macro is an AttributeError")


_run6 = run


def run(ctx, rep, tier):
    _run6(ctx, rep, tier)
    _empty_statement_sequences(ctx, rep, tier)
    from .shared import delegate
    delegate(ctx, rep, tier, "C20", ("C20.f",), "C18.p", "a diagnostic never reads the debug data of a dead object that owned the cited object's address (it may not render: position outside the current source)")


# ---------------------------------------------------------------------------------------------------------------- C18.q
TRANSITION_ATTRS = {"error_handling", "target", "is_fallthrough", "actions", "on_values", "fallthrough", "handles_else", "attach", "to", "copy"}
# subscripts whose receiver is a container, not a state (the element exists by construction of the loop / index)
NOT_A_STATE_LOOKUP = re.compile(r"(transitions|actions|children|sub_dfas|sub_matches|args|states|values|chars|on_values|handlers|_collection|_refmap|targets|frontier|backref\w*)\b(\(\))?$|^(sys|os)\.")


def _optional_transition_results(ctx, rep, tier):
    """C18.q: DFState.__getitem__ answers None when the state has neither a transition for the symbol(s) nor an Else (FALLOFF_TRIAGE used to
    *assert* that every caller tests this - it did not hold). A value obtained from a subscript and then used as a transition (one of the
    transition attributes is read from it) must be None-tested on the way: `if v is None`/`if not v` leaving the block or the iteration,
    `v is not None and ...`, `if v:` / `if v and ...` around the use, or the subscript is an assignment just made (`s[k] = t; s[k].x`)."""
    from ..guards import enclosing_conditions
    model = ctx.model
    rep.rule("C18.q", "a transition obtained from a state lookup (which may answer None) is None-tested before one of its attributes is read")
    n = 0
    for q, f in pipeline(model).items():
        own = list(walk_no_nested(f))
        # variables assigned from a subscript whose receiver is not a known container
        assigned = {}
        for node in own:
            if isinstance(node, ast.Assign) and len(node.targets) == 1 and isinstance(node.targets[0], ast.Name) and isinstance(node.value, ast.Subscript):
                recv = ast.unparse(node.value.value)
                if not NOT_A_STATE_LOOKUP.search(recv) and not isinstance(node.value.slice, ast.Slice) and not (isinstance(node.value.slice, ast.Constant) and isinstance(node.value.slice.value, int)):
                    assigned.setdefault(node.targets[0].id, []).append(node)
        for node in own:
            if not (isinstance(node, ast.Attribute) and node.attr in TRANSITION_ATTRS and isinstance(node.value, ast.Name) and node.value.id in assigned and isinstance(node.value.ctx, ast.Load)):
                continue
            var = node.value.id
            srcs = [a for a in assigned[var] if a.lineno <= node.lineno]
            if not srcs:
                continue
            src = max(srcs, key=lambda a: a.lineno)
            # a later re-assignment from something else between src and the use? (keep simple: nearest preceding assignment of any kind)
            others = [x for x in own if isinstance(x, (ast.Assign, ast.For)) and src.lineno < x.lineno <= node.lineno and
                      any(isinstance(t, ast.Name) and t.id == var for t in ast.walk(x.targets[0] if isinstance(x, ast.Assign) else x.target))]
            if others:
                continue
            n += 1
            guarded = None
            for test, pol in enclosing_conditions(model, node, f):
                parts = [p.strip("() ") for p in re.split(r"\band\b", test)]
                if pol and (var in parts or f"{var} is not None" in parts):
                    guarded = f"under `if {test}`"
                if not pol and (test.strip() == f"{var} is None" or test.strip() == f"not {var}"):
                    guarded = f"in the else of `if {test}`"
            # same boolean expression: `v is not None and v.x` / `v and v.x`
            x = node
            while x in model.parents and guarded is None and not isinstance(x, ast.stmt):
                x = model.parents[x]
                if isinstance(x, ast.BoolOp) and isinstance(x.op, ast.And):
                    before = [ast.unparse(v) for v in x.values if v.lineno < node.lineno or (v.lineno == node.lineno and v.col_offset < node.col_offset)]
                    if f"{var} is not None" in before or var in before:
                        guarded = "after `is not None and`"
                if isinstance(x, ast.BoolOp) and isinstance(x.op, ast.Or):
                    before = [ast.unparse(v) for v in x.values if (v.lineno, v.col_offset) < (node.lineno, node.col_offset)]
                    if f"{var} is None" in before or f"not {var}" in before:
                        guarded = "after `is None or`"
            # an earlier statement in an enclosing block that leaves when v is None
            x = node
            while x in model.parents and guarded is None and x is not f:
                child, x = x, model.parents[x]
                for fld in ("body", "orelse", "finalbody"):
                    lst = getattr(x, fld, None)
                    if isinstance(lst, list) and child in lst:
                        for st in lst[:lst.index(child)]:
                            if isinstance(st, ast.If) and st.lineno >= src.lineno and isinstance(st.body[-1], (ast.Continue, ast.Return, ast.Raise, ast.Break)):
                                disj = [ast.unparse(v) for v in st.test.values] if isinstance(st.test, ast.BoolOp) and isinstance(st.test.op, ast.Or) else [ast.unparse(st.test)]
                                if f"{var} is None" in disj or f"not {var}" in disj:
                                    guarded = f"after `if {ast.unparse(st.test)[:50]}: {type(st.body[-1]).__name__.lower()}`"
            rep.check(guarded is not None, "C18.q", q, f"`{var} = {ast.unparse(src.value)[:40]}` then `{var}.{node.attr}`: {guarded or 'unguarded'}",
                      f"`{var}.{node.attr}` is read from the result of a state lookup `{ast.unparse(src.value)[:50]}` that answers None when the state has no transition for it: AttributeError "
                      "(e.g. while the ambiguity report visits a branch of an if that consists of actions only)", line=node.lineno)
    if n < 6:
        raise AnalysisError(f"C18.q: only {n} uses of looked-up transitions found (floor 6)")


_run7 = run


def run(ctx, rep, tier):
    _run7(ctx, rep, tier)
    _optional_transition_results(ctx, rep, tier)


def _range_collapse_bounds(ctx, rep, tier):
    """C18.r: the range-collapse loop indexes the sorted symbol list with range_start / range_end. After the scan, range_start may equal the
    length of the list (a transition on end-of-input alone leaves no character): the final 'valid range' test must establish that the index
    exists, whatever the configured minimum length is (0 is a legal option value)."""
    model = ctx.model
    q = "CodegenCtx._generate_condition_for_transition"
    rep.rule("C18.r", "range collapsing: the closing range test checks that a first element exists before the list is indexed (every option value, 0 included)")
    fn = model.func(q)
    ifs = [n for n in ast.walk(fn) if isinstance(n, ast.If) and "range_end - range_start >= ProgramData.option(ProgramOption.COLLAPSED_RANGE_LENGTH)" in ast.unparse(n.test)]
    if len(ifs) != 2:
        raise AnalysisError(f"C18.r: expected the in-scan and the closing range test, found {len(ifs)}")
    closing = max(ifs, key=lambda n: n.lineno)
    inscan = min(ifs, key=lambda n: n.lineno)
    rep.check(re.match(r"range_start < len\(on_values_remaining\) and ", ast.unparse(closing.test)) is not None, "C18.r", q, "closing test: `range_start < len(list) and ...`",
              "with --collapsed-range-length 0 the closing range test holds for an empty range: on_values_remaining[range_start] is an IndexError for any transition on end-of-input alone")
    # in-scan emission happens at i > range_start, so range_start indexes an existing element there
    loop = model.parents.get(model.parents.get(inscan))
    rep.check(isinstance(loop, ast.For) and ast.unparse(loop.iter) == "range(start_idx + 1, len(on_values_remaining))", "C18.r", q, "in-scan test runs at an index beyond range_start (element exists)", "scan loop bounds changed")
    # the DFA dumper carries a copy of the same scan (F-100): sibling agreement on the closing guard
    dq = "debug_dump_dfa.build_label_onvalues"
    if dq in model.functions:
        dfn = model.functions[dq]
        difs = [n for n in ast.walk(dfn) if isinstance(n, ast.If) and "range_end - range_start >= ProgramData.option(ProgramOption.COLLAPSED_RANGE_LENGTH)" in ast.unparse(n.test)]
        dclosing = max(difs, key=lambda n: n.lineno) if difs else None
        rep.check(dclosing is not None and re.match(r"range_start < len\(on_values_remaining\) and ", ast.unparse(dclosing.test)) is not None, "C18.r", dq,
                  "the dumper's copy of the closing test has the same guard", "`-ddfa --collapsed-range-length 0` raises IndexError in the dumper's copy of the range scan for every program "
                  "(every machine has an Else-only transition); the code generator's copy has the guard")
    # dump options are options: what they need is checked, what they are handed exists (F-101, F-102)
    mn = model.func("main")
    msrc = ast.unparse(mn)
    rep.check(re.search(r"if ProgramData\.dump\(DebugDumpable\.AST\) and pctx\.ast is not None:", msrc) is not None and
              any(isinstance(i, ast.If) and ast.unparse(i.test) == "ast is None" and isinstance(i.body[-1], ast.Return) for i in model.func("debug_dump_ast").body), "C18.r", "main",
              "-dast: no tree (a parser / body made of actions only) is not followed", "`-dast` on a parser or loop body made of actions only dies with AttributeError on None before compile() reports it")
    gate = [i for i in ast.walk(mn) if isinstance(i, ast.If) and "not debug_enabled" in ast.unparse(i.test) and any(isinstance(x, ast.Call) and ast.unparse(x.func) == "exit" for x in ast.walk(i))]
    rep.check(len(gate) == 1 and all(k in msrc for k in ("DebugDumpable.AST", "DebugDumpable.DFA", "DEBUG_DTREE_AS_GRAPH")) and "except ImportError" in msrc, "C18.r", "main",
              "graph dumps are refused with a message when graphviz / pydot cannot be imported", "`-dast` / `-ddfa` / `-dparse` / `-ddtree` as graph end in NameError / RuntimeError / ModuleNotFoundError "
              "tracebacks when the optional graphviz / pydot packages are missing (a plain `pip install nmfu`)")


_run8 = run


def run(ctx, rep, tier):
    _run8(ctx, rep, tier)
    _range_collapse_bounds(ctx, rep, tier)


# ---------------------------------------------------------------------------------------------------------------- C18.s
def _worklists_terminate(ctx, rep, tier):
    """C18.s ('never hangs'): a worklist loop terminates if every element is queued at most once: each `W.put(E)` / `W.append(E)` inside the loop
    that drains W is guarded by a membership test of that same E against a seen-container S (`E not in S` around it, or `... E in S ...: continue`
    before it), and S is extended with E on that path (S.add(E), S[E] = .., or a helper called with E that stores S[<its parameter>])."""
    model = ctx.model
    rep.rule("C18.s", "worklist loops queue each element once: the growth is guarded by a membership test of the same element against a container that the element is added to")
    n = 0
    for q, f in pipeline(model).items():
        for w in [x for x in walk_no_nested(f) if isinstance(x, ast.While)]:
            t = ast.unparse(w.test)
            m = re.fullmatch(r"(?:not (\w+)\.empty\(\)|(\w+))", t)
            if not m:
                continue
            W = m.group(1) or m.group(2)
            grows = [c for c in ast.walk(w) if isinstance(c, ast.Call) and isinstance(c.func, ast.Attribute) and c.func.attr in ("put", "append") and ast.unparse(c.func.value) == W and len(c.args) == 1]
            for gcall in grows:
                n += 1
                E = ast.unparse(gcall.args[0])
                seen = None
                # (a) enclosing `if E not in S`
                x = gcall
                while x in model.parents and x is not w:
                    child, x = x, model.parents[x]
                    if isinstance(x, ast.If) and any(child is s_ or any(child is d for d in ast.walk(s_)) for s_ in x.body):
                        mm = re.fullmatch(r"%s not in (\w+)" % re.escape(E), ast.unparse(x.test))
                        if mm:
                            seen = mm.group(1)
                    # (b) an earlier sibling `if <..> or E in S: continue`
                    for fld in ("body", "orelse"):
                        lst = getattr(x, fld, None)
                        if isinstance(lst, list) and child in lst:
                            for st in lst[:lst.index(child)]:
                                if isinstance(st, ast.If) and isinstance(st.body[-1], ast.Continue):
                                    parts = [ast.unparse(v) for v in st.test.values] if isinstance(st.test, ast.BoolOp) and isinstance(st.test.op, ast.Or) else [ast.unparse(st.test)]
                                    for part in parts:
                                        mm = re.fullmatch(r"%s in (\w+)" % re.escape(E), part)
                                        if mm:
                                            seen = mm.group(1)
                if seen is None:
                    rep.bad("C18.s", q, f"{W}.{gcall.func.attr}({E})", f"`{ast.unparse(gcall)}` re-queues `{E}` without testing that very value against a seen-set: on a cyclic graph "
                            "(a pattern that loops after finishing, e.g. /a+/) the walk never ends - the compiler hangs", line=gcall.lineno)
                    continue
                body_src = ast.unparse(w)
                adds = f"{seen}.add({E})" in body_src or re.search(r"%s\[%s\] = " % (re.escape(seen), re.escape(E)), body_src) is not None
                if not adds:
                    # a helper called with E that stores seen[param]
                    for c in ast.walk(w):
                        if isinstance(c, ast.Call) and isinstance(c.func, ast.Name) and c.args and ast.unparse(c.args[0]) == E:
                            hq = next((k for k in model.functions if k.endswith("." + c.func.id) and k.startswith(q.rsplit(".", 1)[0])), None) or next((k for k in model.functions if k.endswith("." + c.func.id)), None)
                            if hq:
                                hp = model.functions[hq].args.args[0].arg
                                if re.search(r"%s\[%s\] = " % (re.escape(seen), re.escape(hp)), ast.unparse(model.functions[hq])):
                                    adds = True
                rep.check(adds, "C18.s", q, f"{W}.{gcall.func.attr}({E}) under a test against `{seen}`, which records it", f"`{E}` is tested against `{seen}` but never recorded there: it is queued again every time it is met", line=gcall.lineno)
    if n < 2:
        raise AnalysisError(f"C18.s: only {n} worklist growth sites found (floor 2: subset construction, case merge)")


_run9 = run


def run(ctx, rep, tier):
    _run9(ctx, rep, tier)
    _worklists_terminate(ctx, rep, tier)


# ---------------------------------------------------------------------------------------------------------------- C18.t / u / v / w
def _round3_c18(ctx, rep, tier):
    model, g = ctx.model, ctx.grammar
    # C18.t sibling agreement of adopt_actions_from: (list of actions, node)
    rep.rule("C18.t", "every adopt_actions_from returns (a list of actions, a node): callers extend / store the first element as a list")
    n = 0
    for cn, ci in model.classes.items():
        f = ci.methods.get("adopt_actions_from")
        if f is None:
            continue
        for r in [x for x in walk_no_nested(f) if isinstance(x, ast.Return) and x.value is not None]:
            n += 1
            ok = isinstance(r.value, ast.Tuple) and len(r.value.elts) == 2
            first = ast.unparse(r.value.elts[0]) if ok else "?"
            # (an empty tuple display is only ever returned together with the node itself - "nothing to adopt" - and is never stored as a clause's list)
            ok = ok and not re.match(r"tuple\(", first) and not (isinstance(r.value.elts[0], ast.Tuple) and r.value.elts[0].elts)
            rep.check(ok, "C18.t", f"{cn}.adopt_actions_from", f"returns ({first[:40]}, ..): a list", f"{cn}.adopt_actions_from hands its actions on as `{first[:50]}`, not a list: a consumer that extends the "
                      "clause's actions (`case { .. -> { if b { n = 1; } } } n = 2;`) dies with AttributeError", line=r.lineno)
    if n < 5:
        raise AnalysisError(f"C18.t: only {n} adopt_actions_from returns found")
    # C18.u the number terminals do not match a bare radix prefix / sign (the converter slices the prefix off and calls int())
    rep.rule("C18.u", "number terminals: a bare radix prefix or sign is not a number (the converter would call int() on an empty string)")
    for term, probes in (("RADIX_NUMBER", ["0b", "0x", "+0x", "-0x", "+", "-"]),):
        rx = g.terminal_regex(term)
        for pr in probes:
            rep.check(re.fullmatch(rx, pr) is None, "C18.u", "grammar:" + term, f"{pr!r} is not a {term}", f"{pr!r} is accepted as a number by the grammar: _convert_int calls int('', base) -> ValueError")
    # C18.v the column marker stays inside the line
    rep.rule("C18.v", "the column marker of a diagnostic indexes the source line only within its length (line and column can come from different objects; the line may be unknown)")
    q = "NMFUError._generate_whitespace_marker"
    rep.check(model.has(q, "source_line = ProgramData.get_source_line(line) or ''") and model.has(q, "i < len(source_line) and source_line[i] == '\\t'") and "get_source_line(line)[" not in ast.unparse(model.func(q)),
              "C18.v", q, "guarded indexing of the source line", "the marker indexes get_source_line(line)[i] for every i below the column: IndexError / TypeError when the column comes from another, longer line or the line is unknown")
    # C18.w recursion limit
    rep.rule("C18.w", "parse(), compile() and the two generator entry points turn RecursionError (statement sequences / nesting / macro expansion deeper than the interpreter allows) into an NMFUError")
    dq = "diagnoses_recursion_limit"
    okd = model.has_func(dq) and model.has(dq + ".wrapper", "try:\n    return function(*args, **kwargs)\nexcept RecursionError:\n    raise NMFUError($$a, $$m) from None") if model.has_func(dq) else False
    rep.check(okd, "C18.w", dq, "decorator: RecursionError -> NMFUError", "no conversion of RecursionError into a diagnosed error")
    for q in ("ParseCtx.parse", "DfaCompileCtx.compile", "CodegenCtx.generate_header", "CodegenCtx.generate_source"):     # (the generator's walks recurse over the same machine: F-123)
        decs = [ast.unparse(d) for d in model.func(q).decorator_list]
        rep.check(dq in decs, "C18.w", q, "decorated with diagnoses_recursion_limit", f"{q} lets RecursionError escape: a parser with ~1100 statements, or a recursive macro whose call is nested in blocks, "
                  "ends in an internal exception")


_run10 = run


def run(ctx, rep, tier):
    _run10(ctx, rep, tier)
    _round3_c18(ctx, rep, tier)


# ---------------------------------------------------------------------------------------------------------------- C18.x / y
def _attributes_and_arity(ctx, rep, tier):
    """C18.x: every `self.<attr>` read names an attribute or method that the class, one of its bases or one of its subclasses establishes
    (AttributeError otherwise). C18.y: every call whose callee resolves statically (self.method through the MRO, Class(...), Class.method(...),
    module-level function) passes arguments its signature accepts (TypeError otherwise). Both are 'internal exception' shapes that no input-level
    reasoning is needed for; they hold trivially today and catch renames that miss a use."""
    model = ctx.model
    rep.rule("C18.x", "every self.<attr> read is established by the class, a base or a subclass")
    est = {}

    def established(cn):
        if cn in est:
            return est[cn]
        out = set()
        for k in model.mro(cn):
            ci = model.classes.get(k)
            if not ci:
                continue
            out |= set(ci.attrs) | set(ci.methods)
            for f in ci.methods.values():
                for n in ast.walk(f):
                    if isinstance(n, (ast.Assign, ast.AugAssign, ast.AnnAssign)):
                        for t in (n.targets if isinstance(n, ast.Assign) else [n.target]):
                            for e in ast.walk(t):
                                if isinstance(e, ast.Attribute) and isinstance(e.value, ast.Name) and e.value.id in ("self", "cls"):
                                    out.add(e.attr)
        est[cn] = out
        return out
    nx = 0
    for cn, ci in model.classes.items():
        if any(b not in model.classes and b not in ("object", "abc.ABC", "enum.Enum", "Exception", "int", "type") for b in ci.bases):
            continue      # inherits from a library class: its attributes are not visible here
        have = set(established(cn))
        for sub in model.subclasses(cn):
            have |= established(sub)
        for mn, f in ci.methods.items():
            for n in ast.walk(f):
                if isinstance(n, ast.Attribute) and isinstance(n.value, ast.Name) and n.value.id in ("self", "cls") and isinstance(n.ctx, ast.Load) and not n.attr.startswith("__"):
                    nx += 1
                    if n.attr not in have:
                        rep.bad("C18.x", f"{cn}.{mn}", f"self.{n.attr}", f"`self.{n.attr}` is read in {cn}.{mn} but no method of {cn}, its bases or its subclasses establishes it: AttributeError", line=n.lineno)
    rep.bulk_ok("C18.x", nx)
    if nx < 500:
        raise AnalysisError(f"C18.x: only {nx} attribute reads examined")
    rep.rule("C18.y", "statically resolvable calls pass arguments their callee's signature accepts")

    def sig(f, bound):
        a = f.args
        pos = [x.arg for x in a.posonlyargs + a.args]
        if bound and pos:
            pos = pos[1:]
        req = len(pos) - len(a.defaults)
        kwonly = [x.arg for x in a.kwonlyargs]
        kwreq = [x.arg for x, d in zip(a.kwonlyargs, a.kw_defaults) if d is None]
        return pos, req, a.vararg is not None, a.kwarg is not None, kwonly, kwreq
    ny = 0

    def check(call, f, bound, where, what):
        nonlocal ny
        if any(isinstance(x, ast.Starred) for x in call.args) or any(k.arg is None for k in call.keywords):
            return
        ny += 1
        pos, req, var, kw, kwonly, kwreq = sig(f, bound)
        npos = len(call.args)
        kws = [k.arg for k in call.keywords]
        why = None
        if npos > len(pos) and not var:
            why = f"{npos} positional arguments for {len(pos)} parameters"
        bad_kw = [k for k in kws if k not in pos and k not in kwonly and not kw]
        if bad_kw:
            why = f"unknown keyword(s) {bad_kw}"
        dup = [k for k in kws if k in pos[:npos]]
        if dup:
            why = f"{dup} given twice"
        missing = [p for p in pos[:req] if p not in set(pos[:npos]) | set(kws)] + [k for k in kwreq if k not in kws]
        if missing:
            why = f"missing {missing}"
        if why:
            rep.bad("C18.y", where, what, f"`{ast.unparse(call)[:80]}`: {why} - TypeError when this call runs", line=call.lineno)
    for q, f in model.functions.items():
        cls = q.split(".")[0] if q.split(".")[0] in model.classes else None
        for call in ast.walk(f):
            if not isinstance(call, ast.Call):
                continue
            fn = call.func
            if isinstance(fn, ast.Attribute) and isinstance(fn.value, ast.Name) and fn.value.id == "self" and cls:
                o, mf = model.resolve_method(cls, fn.attr)
                if mf is not None and not any(model.classes[s].methods.get(fn.attr) is not None and model.classes[s].methods[fn.attr] is not mf for s in model.subclasses(cls, include_self=False)):
                    check(call, mf, "staticmethod" not in [ast.unparse(d) for d in mf.decorator_list], q, f"self.{fn.attr}(..)")
            elif isinstance(fn, ast.Name) and fn.id in model.classes:
                o, mf = model.resolve_method(fn.id, "__init__")
                if mf is not None:
                    check(call, mf, True, q, f"{fn.id}(..)")
            elif isinstance(fn, ast.Name) and fn.id in model.functions and "." not in fn.id:
                check(call, model.functions[fn.id], False, q, f"{fn.id}(..)")
            elif isinstance(fn, ast.Attribute) and isinstance(fn.value, ast.Name) and fn.value.id in model.classes:
                o, mf = model.resolve_method(fn.value.id, fn.attr)
                if mf is not None:
                    decs = [ast.unparse(d) for d in mf.decorator_list]
                    if "classmethod" in decs or "staticmethod" in decs:
                        check(call, mf, "classmethod" in decs, q, f"{fn.value.id}.{fn.attr}(..)")
    rep.bulk_ok("C18.y", ny)
    if ny < 300:
        raise AnalysisError(f"C18.y: only {ny} resolvable calls examined")


_run11 = run


def run(ctx, rep, tier):
    _run11(ctx, rep, tier)
    _attributes_and_arity(ctx, rep, tier)


# ---------------------------------------------------------------------------------------------------------------- C18.z
def _chains(expr, root):
    """maximal attribute chains rooted at Name `root` inside expr, as dotted text with the root normalised to 'action'"""
    out = set()
    inner = set()
    for n in ast.walk(expr):
        if isinstance(n, ast.Attribute):
            b = n
            while isinstance(b, ast.Attribute):
                b = b.value
            if isinstance(b, ast.Name) and b.id == root:
                out.add(n)
                if isinstance(n.value, ast.Attribute):
                    inner.add(n.value)
    called = {c.func for c in ast.walk(expr) if isinstance(c, ast.Call)}
    res = set()
    for n in out:
        if n in inner:
            continue
        if n in called:                 # `x.items.values()` names the container x.items, not a field `values`
            n = n.value
        if isinstance(n, ast.Attribute):
            res.add("action." + ast.unparse(n).split(".", 1)[1])
    return res


def _single_return(f):
    rets = [n for n in ast.walk(f) if isinstance(n, ast.Return) and n.value is not None]
    return rets[0].value if len(rets) == 1 else None


def _embedded_actions_agree(ctx, rep, tier):
    """C18.z: the actions the code generator emits *inside* another action (the bodies of an `if`, what runs on the way out of a `break`) are the
    ones that action reports through embeds(), and its override targets include theirs. Reachability (dead-state removal, the DONE/FAIL answer of
    end(), the 'unreachable after loop' test) is computed from embeds()/get_target_override_targets(); the emitter then indexes the state list with
    every target it meets: a target that reachability did not see has been removed -> ValueError from list.index (and, below -O1, a state that only
    exists at some optimisation levels)."""
    model = ctx.model
    rep.rule("C18.z", "actions emitted inside another action are reported by its embeds() and contribute to its override targets")
    q = "CodegenCtx._generate_action_implementation"
    f = model.func(q)
    n_inst = 0
    for node in ast.walk(f):
        if not (isinstance(node, ast.If) and isinstance(node.test, ast.Call) and ast.unparse(node.test.func) == "isinstance" and len(node.test.args) == 2
                and isinstance(node.test.args[0], ast.Name) and isinstance(node.test.args[1], ast.Name)):
            continue
        var, K = node.test.args[0].id, node.test.args[1].id
        if K not in model.classes:
            continue
        for loop in ast.walk(ast.Module(body=node.body, type_ignores=[])):
            if not isinstance(loop, ast.For) or not isinstance(loop.target, ast.Name):
                continue
            rec = [c for c in ast.walk(loop) if isinstance(c, ast.Call) and ast.unparse(c.func) == "self._generate_action_implementation" and c.args
                   and isinstance(c.args[0], ast.Name) and c.args[0].id == loop.target.id]
            if not rec:
                continue
            it = loop.iter
            root = var
            if isinstance(it, ast.Call) and isinstance(it.func, ast.Attribute) and isinstance(it.func.value, ast.Name) and it.func.value.id == var and not it.args:
                o, mf = model.resolve_method(K, it.func.attr)
                r = _single_return(mf) if mf is not None else None
                if r is None:
                    rep.bad("C18.z", q, f"{K}: {ast.unparse(it)}", f"cannot resolve what `{ast.unparse(it)}` enumerates", line=loop.lineno)
                    continue
                it, root = r, "self"
            emitted = _chains(it, root)
            n_inst += 1
            o, ef = model.resolve_method(K, "embeds")
            er = _single_return(ef) if ef is not None and o == K else None
            reported = _chains(er, "self") if er is not None else set()
            if not emitted or not emitted <= reported:
                rep.bad("C18.z", f"{K}.embeds", f"emitted {sorted(emitted)} / reported {sorted(reported)}",
                        f"the code generator emits the actions in {sorted(emitted)} inside a {K}, but {K}.embeds() reports {sorted(reported) or 'nothing'}: a break / finish among them is "
                        "invisible to all_subactions() (loop 'has a break' test, end() answer) ", line=loop.lineno)
                continue
            o, tf = model.resolve_method(K, "get_target_override_targets")
            src = ast.unparse(tf) if tf is not None and o == K else ""
            uses = tf is not None and o == K and (any(isinstance(c, ast.Call) and ast.unparse(c.func) == "self.embeds" for c in ast.walk(tf)) or emitted <= _chains(tf, "self"))
            collects = uses and any(isinstance(c, ast.Call) and isinstance(c.func, ast.Attribute) and c.func.attr == "get_target_override_targets" for c in ast.walk(tf))
            rep.check(collects, "C18.z", f"{K}.get_target_override_targets", f"includes the targets of {sorted(emitted)}",
                      f"{K}.get_target_override_targets() does not include the override targets of the actions it embeds ({sorted(emitted)}): a state only reached through them "
                      "(the end of an outer loop left by `loop { loop { ..; if c { break; } } break; }`) is removed as inaccessible and the emitter's list.index raises ValueError",
                      line=(tf.lineno if tf is not None and o == K else loop.lineno))
    rep.check(n_inst >= 2, "C18.z", q, f"{n_inst} embedding action kinds examined", f"only {n_inst} embedding action kinds recognised in the emitter (expected ConditionalAction and BreakAction)")


_run12 = run


def run(ctx, rep, tier):
    _run12(ctx, rep, tier)
    _embedded_actions_agree(ctx, rep, tier)


# ---------------------------------------------------------------------------------------------------------------- C18.z2
def _emitter_stops_where_reachability_stops(ctx, rep, tier):
    """C18.z2 (F-82): DFA.dfs stops reading a transition's actions at the first one that always leaves (the statements after a `finish` / `break` put their
    leading actions behind it: dead), so states only those dead actions refer to are removed as inaccessible. The emitter has to stop at the same place -
    otherwise it renders the dead actions and asks list.index for a removed state (uncaught ValueError at -O1+)."""
    from .tbrows import action_loop_stop_modes
    model = ctx.model
    rep.rule("C18.z2", "the emitter renders a transition's actions up to and including the first one at which DFA.dfs stops (an action that always leaves)")
    dfs = model.functions.get("DFA.dfs.aux")
    stops = set()
    if dfs is not None:
        for loop in ast.walk(dfs):
            if isinstance(loop, ast.For) and ast.unparse(loop.iter).endswith(".actions"):
                chain = loop.body[0] if loop.body and isinstance(loop.body[0], ast.If) else None
                while chain is not None:
                    if any(isinstance(x, ast.Break) for x in chain.body):
                        stops |= set(re.findall(r"ActionOverrideMode\.(\w+)", ast.unparse(chain.test)))
                    chain = chain.orelse[0] if len(chain.orelse) == 1 and isinstance(chain.orelse[0], ast.If) else None
    if not stops:
        rep.bad("C18.z2", "DFA.dfs", "modes at which the reachability walk stops reading actions", "DFA.dfs no longer stops at an always-leaving action: re-derive this rule")
        return
    em = action_loop_stop_modes(model)
    rep.check(em is not None and stops <= em, "C18.z2", "CodegenCtx._generate_transition_body", f"stops after modes {sorted(stops)} like DFA.dfs",
              f"DFA.dfs stops reading a transition's actions at {sorted(stops)}, the emitter renders on (stops at {sorted(em or [])}): the leading actions of statements after a "
              "finish / break are emitted although the states they refer to were removed as inaccessible - `\"b\"; finish; loop { if x == 1 { break; } \"bc\"; }` dies with "
              "ValueError from list.index at -O1 and above")


_run13 = run


def run(ctx, rep, tier):
    _run13(ctx, rep, tier)
    _emitter_stops_where_reachability_stops(ctx, rep, tier)


# ---------------------------------------------------------------------------------------------------------------- C18.ts
def _tree_shape_typing(ctx, rep, tier):
    """C18.ts (E10, nmfulint/treeshape.py): every access to a parse tree node is safe in every tree the embedded grammar can produce.

    The front end reads lark trees by position (`X.children[2]`), by kind (`.value` of a token, `.data` / `.children` of a tree) and through dict
    literals keyed by a label or a token's text. A position that does not exist in one expansion, a `.value` read from what can be a tree, a label
    without a dict entry are an IndexError / AttributeError / KeyError for exactly the sources that use that expansion - an internal exception where
    the property demands a diagnosed error. The analysis types every tree-valued variable by the set of (label, expansion) shapes that can reach it
    (interprocedurally, narrowed by the label / length / kind tests of the code) and decides each access for all of them."""
    from .. import treeshape
    rep.rule("C18.ts", "every positional / kind-specific access to a parse tree node (`.children[i]`, `.value`, `.data`, `{..}[X.data]`, find_data(label)) is "
                       "valid for every (label, expansion) shape of the embedded grammar that can reach it - decided by abstract interpretation of the front "
                       "end over grammar shapes, for all syntactically valid sources")
    a = treeshape.analyse(ctx)
    seen = set()
    for f in a.findings:
        key = (f.func, f.kind, f.construct)
        if key in seen or f.kind == "MUT":       # stores into the tree are C15.p's business
            continue
        seen.add(key)
        rep.bad("C18.ts", f.func, f"{f.kind}: {f.construct}"[:200], f.message)
    done = set()
    for func, construct, kind in a.checked:
        key = (func, kind, construct)
        if key in done or key in seen:
            continue
        done.add(key)
        rep.ok("C18.ts", func, f"{kind}: {construct}"[:200], sample=len(done) % 40 == 1)
    rep.count("treeshape:functions_analysed", len(a.called))
    rep.count("treeshape:accesses_decided", len(a.checked))
    rep.count("treeshape:accesses_on_inexactly_typed_values(not decided)", len(a.unresolved))
    rep.count("treeshape:accesses_on_untyped_values(not decided)", len(a.untyped))
    rep.count("treeshape:arguments_of_inexact_provenance(assumed to conform)", len(a.inexact_args))
    rep.floor("C18.ts", 120)


_run14 = run


def run(ctx, rep, tier):
    _run14(ctx, rep, tier)
    _tree_shape_typing(ctx, rep, tier)


# ---------------------------------------------------------------------------------------------------------------- C18.s2
def _optimiser_passes_report_real_progress(ctx, rep, tier):
    """C18.s2 (F-125): compile() repeats the optimiser passes while any of them reports a modification. A pass that counts a rewrite which changes nothing - the
    dummy-state removal retargeting a transition to where it points already: a dummy state whose only step leads back to itself - reports progress for ever."""
    model = ctx.model
    q = "DfaCompileCtx._optimize_shortcircuit_fallthroughs"
    fn = model.func(q)
    rep.rule("C18.s2", "a rewrite that retargets a transition past a state is only performed (and counted) when it moves the transition: a step that leads back to its own "
                       "state is not bypassed - the pass loop in compile() ends when nothing changes")
    n = 0
    for loop in [x for x in ast.walk(fn) if isinstance(x, ast.For)]:
        for i, st in enumerate(loop.body):
            m = re.fullmatch(r"(\w+)\.to\((\w+)\.target\)", ast.unparse(st.value)) if isinstance(st, ast.Expr) else None
            if m is None:
                continue
            tr, step = m.group(1), m.group(2)
            # is `step` taken from tr.target's own transitions (the dummy-state half)? only then can step.target be tr.target again without the lookup having excluded it
            from_target = any(isinstance(a, ast.Assign) and ast.unparse(a.targets[0]) == step and ast.unparse(a.value).startswith(f"{tr}.target.transitions[") for a in loop.body[:i])
            if not from_target:
                continue
            n += 1
            guard = any(isinstance(g, ast.If) and ast.unparse(g.test) in (f"{step}.target is {tr}.target", f"{step}.target == {tr}.target", f"{tr}.target is {step}.target") and
                        isinstance(g.body[-1], ast.Continue) for g in loop.body[:i])
            rep.check(guard, "C18.s2", q, f"{ast.unparse(st.value)} (dummy-state removal)",
                      f"`{ast.unparse(st.value)}` is performed and counted also when `{step}.target` is the state `{tr}` points at already (a dummy state whose only step leads back to "
                      "itself): nothing changes, the pass reports a modification every time and `while self._optimize_...(): pass` in compile() never ends - `loop { /c{0}/; }` at -O3",
                      line=st.lineno)
    if n < 1:
        raise AnalysisError("C18.s2: dummy-state removal (a transition retargeted to the target of its target's only step) not found")


_run15 = run


def run(ctx, rep, tier):
    _run15(ctx, rep, tier)
    _optimiser_passes_report_real_progress(ctx, rep, tier)


_run_r6 = run


def run(ctx, rep, tier):
    _run_r6(ctx, rep, tier)
    from .shared import delegate
    delegate(ctx, rep, tier, "C14", ("C14.h",), "C18.x1", "no operand reaches the compile-time evaluator with a type its operator cannot compare (an enum constant next to `<` and a number: TypeError): "
             "comparison operands are parsed without the destination of the whole expression")
