"""C19 - command-line options resolve to a consistent configuration (DESIGN.md section 3, C19)."""
import ast, re
from ..core import AnalysisError
from ..srcmodel import walk_no_nested, calls_in, strip_doc, raised_class

EXPLANATION = (
    "The resolution is a short straight-line algorithm over literal tables, decided by (phase structure of the code) + "
    "(table invariants that make the property follow from that structure). C19.a: writes to the flag map occur in the "
    "order reset -> level loop -> explicit overrides -> implication fixpoint -> exclusion pass, and argument parsing "
    "never writes it (so the result cannot depend on the order of different flags). C19.b: levels are cumulative "
    "(range(level+1), disjoint level sets, help scans as many levels as the table has). C19.c: table invariants T1-T5 "
    "over ProgramFlag (declared ids, level flags free of implies/exclusive, defaults consistent, implied-vs-excluded "
    "conflicts only in raising pairs, exclusivity declared on a visited side). C19.d: implication is an unconditional "
    "fixpoint and the exclusion pass recurses through implies, raising exactly when the conflicting flag was explicitly "
    "requested. C19.e: every conversion of user text in the argument loop is guarded (-> RuntimeError) or domain-checked. "
    "C19.f: implications code generation relies on are in the table.")
NOT_DECIDED = "nothing material: the space is finite and table-driven; trusted is the paper argument from (a)-(d) to the statement"
ENGINES = ["E1 source model", "E7 flag table"]

LCF = "ProgramData.load_commandline_flags"


def flags_store(node):
    """Is `node` an assignment target cls._flags[...]"""
    return isinstance(node, ast.Subscript) and ast.unparse(node.value) in ("cls._flags", "ProgramData._flags", "self._flags")


def writes_flags(st):
    out = []
    for n in ast.walk(st):
        if isinstance(n, (ast.Assign, ast.AugAssign)):
            tgts = n.targets if isinstance(n, ast.Assign) else [n.target]
            for t in tgts:
                if flags_store(t):
                    out.append(n)
                if ast.unparse(t) in ("cls._flags", "ProgramData._flags"):
                    out.append(n)
    return out


def run(ctx, rep, tier):
    model, ft = ctx.model, ctx.flags
    fn = model.func(LCF)
    body = strip_doc(fn.body)

    # ------------------------------------------------------------------ C19.a phase order
    rep.rule("C19.a", "phase order of writes to the flag map: reset, (argument loop: none), level loop, explicit overrides, implication fixpoint, exclusion pass")
    phases = []
    aux_def = None
    for st in body:
        if isinstance(st, ast.Expr) and isinstance(st.value, ast.Call) and ast.unparse(st.value.func).endswith("_reset_flags"):
            phases.append(("reset", st))
            continue
        if isinstance(st, ast.FunctionDef):
            if writes_flags(st):
                aux_def = st
            continue
        w = writes_flags(st)
        calls_aux = aux_def is not None and any(isinstance(n, ast.Call) and isinstance(n.func, ast.Name) and n.func.id == aux_def.name for n in ast.walk(st))
        if isinstance(st, ast.For) and "all_cmd_options" in ast.unparse(st.iter):
            phases.append(("args", st))
            rep.check(not w, "C19.a", LCF, "argument loop does not write the flag map",
                      "the argument loop writes cls._flags directly: the result now depends on the order in which flags are given")
            continue
        if not w and not calls_aux:
            continue
        kind = "?"
        src = ast.unparse(st)
        if isinstance(st, ast.For) and re.search(r"range\(\s*optimize_level", ast.unparse(st.iter)):
            kind = "level"
        elif isinstance(st, ast.For) and "flag_overrides.items()" in ast.unparse(st.iter):
            kind = "override"
        elif isinstance(st, ast.While) and ".implies" in src:
            kind = "implies"
        elif isinstance(st, ast.For) and "flag_overrides" in ast.unparse(st.iter) and calls_aux:
            kind = "exclusive"
        phases.append((kind, st))
    order = [k for k, _ in phases]
    want = ["reset", "args", "level", "override", "implies", "exclusive"]
    rep.check(order == want, "C19.a", LCF, "phase order " + " -> ".join(order),
              f"phases run as {order}, expected {want}: explicit -f/-fno- settings must override the level, implications and exclusions must see the final explicit values")
    rep.check(body and phases and phases[0][0] == "reset" and body.index(phases[0][1]) == 0, "C19.a", LCF, "reset is the first effect", "_reset_flags is not the first statement")
    # C19.l (F-127): names looked up after case folding are refused unless the text the user wrote is ASCII - str.upper() maps U+017F, U+0131, the ligatures .. onto
    # ASCII letters, so a spelling that is no flag's name would silently select one
    rep.rule("C19.l", "a name that is looked up among the enum members after str.upper() is refused when the text as written is not ASCII")
    n_l = 0
    for cmp_ in [n for n in ast.walk(fn) if isinstance(n, ast.Compare) and len(n.ops) == 1 and isinstance(n.ops[0], ast.NotIn) and ast.unparse(n.comparators[0]).endswith(".__members__")]:
        n_l += 1
        par = model.parents.get(cmp_)
        guards = [ast.unparse(v) for v in par.values] if isinstance(par, ast.BoolOp) and isinstance(par.op, ast.Or) else []
        ok = any(re.fullmatch(r"not \w+\.isascii\(\)", g) for g in guards)
        rep.check(ok, "C19.l", LCF, f"`{ast.unparse(cmp_)[:60]}` or not ascii", f"`{ast.unparse(cmp_)}` decides on the case-folded name alone: `-f\u017ftrings-as-u8` (long s) is accepted as strings-as-u8 "
                  "instead of being reported as an unknown flag")
    if n_l < 2:
        raise AnalysisError(f"C19.l: only {n_l} member lookups found in {LCF} (floor 2)")
    ph = dict(phases)
    # C19.k (seed C19-14): every explicit setting is applied - the override loop stores unconditionally, whatever the value
    rep.rule("C19.k", "explicit -f / -fno- settings override the level: the override loop stores every (flag, value) pair, unconditionally")
    if "override" in ph:
        st = ph["override"]
        tn = [ast.unparse(e) for e in st.target.elts] if isinstance(st.target, ast.Tuple) and len(st.target.elts) == 2 else None
        ok = tn is not None and len(st.body) == 1 and isinstance(st.body[0], ast.Assign) and ast.unparse(st.body[0].targets[0]) == f"cls._flags[{tn[0]}]" and ast.unparse(st.body[0].value) == tn[1] and not st.orelse
        rep.check(ok, "C19.k", LCF, "for flag, value in overrides: flags[flag] = value", f"the override loop is `{ast.unparse(st)[:140]}`: some explicit settings are not applied "
                  "(e.g. skipped when equal to the flag's declared default - `-O2 -fno-collapse-transition-ranges` keeps the optimisation the level switched on)")
    # ------------------------------------------------------------------ C19.b levels cumulative
    rep.rule("C19.b", "levels are cumulative: range(level + 1) over _OPTIMIZE_LEVELS, disjoint level sets, every level flag switched on")
    if "level" in ph:
        st = ph["level"]
        ok = re.fullmatch(r"range\(optimize_level \+ 1\)", ast.unparse(st.iter)) is not None
        inner = [n for n in ast.walk(st) if isinstance(n, ast.For) and n is not st]
        ok2 = len(inner) == 1 and re.fullmatch(r"cls\._OPTIMIZE_LEVELS\[(\w+)\]", ast.unparse(inner[0].iter)) is not None and \
            ast.unparse(inner[0].iter)[len("cls._OPTIMIZE_LEVELS["):-1] == ast.unparse(st.target)
        w = writes_flags(st)
        ok3 = len(w) == 1 and isinstance(w[0], ast.Assign) and isinstance(w[0].value, ast.Constant) and w[0].value.value is True and \
            ast.unparse(w[0].targets[0].slice) == (ast.unparse(inner[0].target) if inner else "")
        uncond = not any(isinstance(n, ast.If) for n in ast.walk(st))
        rep.check(ok and ok2 and ok3 and uncond, "C19.b", LCF, "level loop: for j in range(level+1): for i in LEVELS[j]: flags[i] = True",
                  f"level loop is `{ast.unparse(st)[:120]}`: each -O level must switch on every flag of every level up to and including it")
    seen = {}
    for lv, names in ft.levels.items():
        for n in names:
            rep.check(n not in seen, "C19.b", "ProgramData._OPTIMIZE_LEVELS", f"{n} listed once", f"{n} appears in levels {seen.get(n)} and {lv}")
            seen[n] = lv
            rep.check(n in ft.flags, "C19.b", "ProgramData._OPTIMIZE_LEVELS", f"{n} is a declared flag", f"{n} not declared")
    rep.check(sorted(ft.levels) == list(range(len(ft.levels))), "C19.b", "ProgramData._OPTIMIZE_LEVELS", "levels are 0..n-1", f"levels are {sorted(ft.levels)}")
    iof = model.func("ProgramData._is_optimization_flag")
    rng = [n for n in walk_no_nested(iof) if isinstance(n, ast.Call) and isinstance(n.func, ast.Name) and n.func.id == "range"]
    ok = len(rng) == 1 and ((len(rng[0].args) == 1 and isinstance(rng[0].args[0], ast.Constant) and rng[0].args[0].value == len(ft.levels)) or "len(" in ast.unparse(rng[0]))
    rep.check(ok, "C19.b", "ProgramData._is_optimization_flag", "scans every level", f"help/classification scans {ast.unparse(rng[0]) if rng else '?'} but the table has {len(ft.levels)} levels")
    # default level is a valid level and -O is range checked
    dl = [n for n in body if isinstance(n, ast.Assign) and ast.unparse(n.targets[0]) == "optimize_level"]
    rep.check(len(dl) == 1 and isinstance(dl[0].value, ast.Constant) and dl[0].value.value in ft.levels, "C19.b", LCF, "default level exists", "default optimisation level not in the table")

    # ------------------------------------------------------------------ C19.c table invariants
    rep.rule("C19.c", "table invariants T1-T5 over ProgramFlag")
    level_flags = set(seen)
    for name, f in ft.flags.items():
        for v in f.implies + f.exclusive_with:
            rep.check(v in ft.by_value, "C19.c", "ProgramFlag." + name, f"T1 id {v} declared", f"{name} refers to undeclared flag id {v}: KeyError/ValueError at resolution")
    vals = [f.value for f in ft.flags.values()]
    rep.check(len(vals) == len(set(vals)), "C19.c", "ProgramFlag", "T1 flag ids unique", "two flags share an id (enum aliasing merges them)")
    for n in sorted(level_flags):
        f = ft.flags[n]
        excluded_by = [g.name for g in ft.flags.values() if f.value in g.exclusive_with]
        rep.check(not f.implies and not f.exclusive_with and not excluded_by and not f.default, "C19.c", "ProgramFlag." + n, "T2 level flag is plain",
                  f"level flag {n} has implies/exclusive_with/default or is excluded by {excluded_by}: levels would no longer be supersets")
    defaults = [f for f in ft.flags.values() if f.default]
    for f in defaults:
        rep.check(not f.implies, "C19.c", "ProgramFlag." + f.name, "T3 default-on flag implies nothing", f"default-on {f.name} implies {f.implies}: defaults would be inconsistent before resolution")
        for g in defaults:
            if g is not f:
                rep.check(g.value not in f.exclusive_with, "C19.c", "ProgramFlag." + f.name, f"T3 not exclusive with default-on {g.name}", f"default-on flags {f.name} and {g.name} are mutually exclusive")
    # T4: implied by some flag and excluded by another -> only if the excluder/implier pair conflicts explicitly (raises)
    for f in ft.flags.values():
        for iv in f.implies:
            tgt = ft.by_value.get(iv)
            if tgt is None:
                continue
            excluders = [g for g in ft.flags.values() if tgt.value in g.exclusive_with]
            for g in excluders:
                # g on (explicitly) and f on => tgt implied on and excluded: must be an explicit-conflict pair or g/f themselves exclusive
                conflict_declared = (f.value in g.exclusive_with) or (g.value in f.exclusive_with) or (g.value in tgt.exclusive_with and tgt.value in g.exclusive_with)
                rep.check(conflict_declared, "C19.c", "ProgramFlag." + tgt.name, f"T4 implied by {f.name}, excluded by {g.name}: symmetric exclusion",
                          f"{tgt.name} is implied by {f.name} but switched off by {g.name} without a symmetric exclusion: both can be requested and the implied flag ends up off")
    # T5: every exclusive pair is declared on a side aux() visits: the side that can be explicitly on; symmetric or declared on the non-default side
    for f in ft.flags.values():
        for xv in f.exclusive_with:
            g = ft.by_value.get(xv)
            if g is None:
                continue
            sym = f.value in g.exclusive_with
            rep.check(sym or g.default, "C19.c", "ProgramFlag." + f.name, f"T5 exclusion with {g.name} visible from both requests",
                      f"{f.name} excludes {g.name} but not vice versa and {g.name} is not a default: requesting only {g.name} after {f.name} leaves both on")

    # ------------------------------------------------------------------ C19.d implication fixpoint / exclusion recursion
    rep.rule("C19.d", "implication loop assigns every implied flag unconditionally until nothing changes; exclusion pass raises exactly when the conflicting flag "
                      "was explicitly requested on, clears it otherwise, and recurses through implies")
    if "implies" in ph:
        st = ph["implies"]
        ok_loop = isinstance(st.test, ast.Constant) and st.test.value is True
        assigns = [n for n in ast.walk(st) if isinstance(n, ast.Assign) and flags_store(n.targets[0])]
        good = False
        why = "no assignment cls._flags[x] = True found"
        for a in assigns:
            if not (isinstance(a.value, ast.Constant) and a.value.value is True):
                continue
            # enclosing control inside the while
            chain = []
            n = a
            while n is not st:
                n = model.parents[n]
                if isinstance(n, (ast.If, ast.For, ast.While)) and n is not st:
                    chain.append(n)
            ifs = [c for c in chain if isinstance(c, ast.If)]
            fors = [c for c in chain if isinstance(c, ast.For)]
            x = ast.unparse(a.targets[0].slice)
            for_impl = [f for f in fors if ast.unparse(f.target) == x and ast.unparse(f.iter).endswith(".implies")]
            for_items = [f for f in fors if "_flags.items()" in ast.unparse(f.iter)]
            if not for_impl or not for_items:
                why = "assignment is not inside `for k, v in flags.items(): ... for x in k.implies`"
                continue
            kv = for_items[0].target
            vname = ast.unparse(kv.elts[1]) if isinstance(kv, ast.Tuple) and len(kv.elts) == 2 else None
            extra = [i for i in ifs if ast.unparse(i.test) != vname]
            if extra:
                why = f"the implied flag is only switched on under extra condition(s) {[ast.unparse(i.test) for i in extra]}"
                continue
            if len(ifs) != 1:
                why = "implied flags must be switched on exactly when the implying flag is on"
                continue
            good = True
        brk = any(isinstance(n, ast.Break) for n in ast.walk(st))
        rep.check(ok_loop and good and brk and "did_something" in ast.unparse(st), "C19.d", LCF, "implication fixpoint", f"implication loop: {why}")
    if aux_def is not None:
        raises = [n for n in ast.walk(aux_def) if isinstance(n, ast.Raise)]
        ok_r = False
        why = "no raise in the exclusion helper"
        for r in raises:
            n = r
            test = None
            while n is not aux_def:
                n = model.parents[n]
                if isinstance(n, ast.If) and r in ast.walk(ast.Module(body=n.body, type_ignores=[])):
                    test = n.test
                    break
            if test is None:
                why = "conflict raise is unconditional"
                continue
            conj = [ast.unparse(v) for v in test.values] if isinstance(test, ast.BoolOp) and isinstance(test.op, ast.And) else [ast.unparse(test)]
            core_ok = (set(conj) == {"conflict in flag_overrides", "flag_overrides[conflict]"}) or conj in (["flag_overrides.get(conflict)"], ["flag_overrides.get(conflict, False)"])
            if core_ok:
                ok_r = raised_class(r) == "RuntimeError"
                why = "conflict is not reported as RuntimeError" if not ok_r else ""
            else:
                extra = [c for c in conj if c not in ("conflict in flag_overrides", "flag_overrides[conflict]")]
                why = f"conflict between two explicitly requested exclusive flags is only reported under extra condition(s) {extra}"
        rep.check(ok_r, "C19.d", LCF + "." + aux_def.name, "explicit conflict raises", why)
        src = ast.unparse(aux_def)
        clears = [n for n in ast.walk(aux_def) if isinstance(n, ast.Assign) and flags_store(n.targets[0]) and isinstance(n.value, ast.Constant) and n.value.value is False]
        rec = any(isinstance(n, ast.Call) and isinstance(n.func, ast.Name) and n.func.id == aux_def.name for n in ast.walk(aux_def))
        rep.check(len(clears) == 1 and ast.unparse(clears[0].targets[0].slice) == "conflict" and rec and "flag.implies" in src and "flag.exclusive_with" in src,
                  "C19.d", LCF + "." + aux_def.name, "clears the excluded flag; recurses through implies", "exclusion helper no longer clears conflicts / follows implied flags")
    if "exclusive" in ph:
        st = ph["exclusive"]
        guard = [n for n in ast.walk(st) if isinstance(n, ast.If)]
        ok = len(guard) == 1 and re.fullmatch(r"cls\._flags\[(\w+)\]", ast.unparse(guard[0].test)) is not None
        rep.check(ok, "C19.d", LCF, "exclusion pass visits every explicitly-on flag", f"exclusion pass guard is {[ast.unparse(g.test) for g in guard]}")

    # ------------------------------------------------------------------ C19.e malformed text is reported
    rep.rule("C19.e", "every conversion of user text in the argument loop is guarded (except ValueError -> RuntimeError) or domain-checked; unknown names raise")
    argloop = ph.get("args")
    if argloop is None:
        raise AnalysisError("argument loop not found")
    n_conv = 0
    for n in ast.walk(argloop):
        conv = None
        if isinstance(n, ast.Call) and isinstance(n.func, ast.Name) and n.func.id in ("int", "float") and n.args and "option_value" in ast.unparse(n.args[0]):
            conv = ast.unparse(n)
        elif isinstance(n, ast.Call) and isinstance(n.func, ast.Name) and n.func.id in model.classes and model.classes[n.func.id].bases and \
                any("Enum" in b for b in model.classes[n.func.id].bases) and n.args:
            conv = ast.unparse(n)
        elif isinstance(n, ast.Call) and isinstance(n.func, ast.Call) and ast.unparse(n.func.func) == "type":
            conv = ast.unparse(n)
        if conv is None:
            continue
        n_conv += 1
        guarded = False
        m = n
        while m is not argloop:
            m = model.parents[m]
            if isinstance(m, ast.Try) and any(h.type is not None and "ValueError" in ast.unparse(h.type) and any(isinstance(x, ast.Raise) and raised_class(x) == "RuntimeError" for x in ast.walk(h))
                                               for h in m.handlers) and n in ast.walk(ast.Module(body=m.body, type_ignores=[])):
                guarded = True
        rep.check(guarded, "C19.e", LCF, f"conversion {conv}", f"`{conv}` converts user text with no `except ValueError -> RuntimeError`: a malformed argument dies with an internal exception", line=n.lineno)
    if n_conv < 3:
        raise AnalysisError(f"C19.e: only {n_conv} conversions of user text found (floor 3)")
    # tuple-unpack of split
    for n in ast.walk(argloop):
        if isinstance(n, ast.Assign) and isinstance(n.targets[0], ast.Tuple) and isinstance(n.value, ast.Call) and isinstance(n.value.func, ast.Attribute) and n.value.func.attr == "split":
            bounded = len(n.value.args) >= 2 or any(k.arg == "maxsplit" for k in n.value.keywords)
            rep.check(bounded, "C19.e", LCF, f"unpack {ast.unparse(n)}", "tuple-unpacking an unbounded split of user text: `--flag a=b=c` dies with ValueError", line=n.lineno)
    # level domain check
    src = ast.unparse(argloop)
    rep.check(re.search(r"optimize_level not in cls\._OPTIMIZE_LEVELS|optimize_level (<|>)", src) is not None, "C19.e", LCF, "-O level domain-checked",
              "the optimisation level is not checked against the level table: -O4 dies with KeyError and -O-1 silently means no flags")
    # boolean flag values domain-checked
    m = re.search(r"set_to = set_to in \[([^\]]*)\]", src)
    rep.check(m is None or re.search(r"if set_to not in \[", src) is not None, "C19.e", LCF, "--flag x=<value> domain-checked",
              "--flag name=value treats every unknown value as 'off' instead of reporting it")
    # unknown flag / option names
    for enum, what in (("ProgramFlag", "unknown flag"), ("ProgramOption", "unknown option")):
        # an `if` that raises, one of whose alternatives is "<name> not in <Enum>.__members__" (further alternatives only refuse more)
        found = False
        for st in [n for n in ast.walk(fn) if isinstance(n, ast.If) and n.body and isinstance(n.body[-1], ast.Raise)]:
            alts = st.test.values if isinstance(st.test, ast.BoolOp) and isinstance(st.test.op, ast.Or) else [st.test]
            if any(isinstance(a, ast.Compare) and len(a.ops) == 1 and isinstance(a.ops[0], ast.NotIn) and ast.unparse(a.comparators[0]) == f"{enum}.__members__" for a in alts):
                found = True
        rep.check(found, "C19.e", LCF, f"{what} reported", f"{what} names are no longer reported")

    # ------------------------------------------------------------------ C19.f semantic implications
    rep.rule("C19.f", "implications code generation relies on are in the table")
    for a, b in (("ALLOCATE_STR_SPACE_DYNAMIC", "DYNAMIC_MEMORY"), ("ALLOCATE_STR_SPACE_DYNAMIC_ON_DEMAND", "ALLOCATE_STR_SPACE_DYNAMIC"),
                 ("ALLOCATE_STR_SPACE_DYNAMIC_ON_DEMAND", "DYNAMIC_MEMORY"), ("YIELD_SUPPORT", "INDIRECT_START_PTR")):
        rep.check(a in ft.flags and b in ft.flags and ft.implies(a, b), "C19.f", "ProgramFlag." + a, f"implies {b}", f"{a} no longer implies {b}")
    for a, b in (("ALLOCATE_STR_SPACE_IN_STRUCT", "ALLOCATE_STR_SPACE_DYNAMIC"), ("HOOK_PER_STATE", "HOOK_GLOBAL"), ("DELETE_STRING_FREE_MEMORY", "ALLOCATE_STR_SPACE_IN_STRUCT")):
        fa, fb = ft.flags.get(a), ft.flags.get(b)
        ok = fa and fb and (fb.value in fa.exclusive_with or fa.value in fb.exclusive_with)
        rep.check(ok, "C19.f", "ProgramFlag." + a, f"exclusive with {b}", f"{a} and {b} are no longer mutually exclusive")
    # reset covers the flag/option maps
    rf = model.func("ProgramData._reset_flags")
    rsrc = ast.unparse(rf)
    rep.check("cls._flags = {x: x.default for x in ProgramFlag}" in rsrc and "cls._options = {x: x.default for x in ProgramOption}" in rsrc, "C19.a", "ProgramData._reset_flags",
              "flags and options reset to their declared defaults", "reset no longer restores declared defaults")


# ---------------------------------------------------------------------------------------------------------------- C19.g
def _single_writer(ctx, rep, tier):
    """C19.g: the argument loop is order-independent for *different* options iff no resolved configuration variable is written by two
    different option arms (last writer wins = the result depends on the order). Configuration variables = names the loop assigns that are
    read after the loop or returned, and class attributes. Arms = the filename arm and the arms of the `option_name` dispatch."""
    model = ctx.model
    fn = model.func(LCF)
    body = strip_doc(fn.body)
    loop = next((st for st in body if isinstance(st, ast.For) and "all_cmd_options" in ast.unparse(st.iter)), None)
    if loop is None:
        raise AnalysisError("C19.g: argument loop not found")
    rep.rule("C19.g", "no configuration variable is written by two different option arms of the argument loop (order independence); the output-name arm refuses an empty value")
    after = body[body.index(loop) + 1:]
    read_after = {n.id for st in after for n in ast.walk(st) if isinstance(n, ast.Name) and isinstance(n.ctx, ast.Load)}

    def arms_of(stmts, label):
        """yield (arm label, statements) for the option dispatch; statements outside any dispatch belong to `label`."""
        for st in stmts:
            if isinstance(st, ast.If):
                t = ast.unparse(st.test)
                if re.match(r"option_name (in|==) ", t) or t.startswith("option[0] != '-'") or t.startswith("option[1] == '-'"):
                    yield from arms_of(st.body, t)
                    if st.orelse:
                        yield from arms_of(st.orelse, "else of " + t if not (len(st.orelse) == 1 and isinstance(st.orelse[0], ast.If)) else label)
                    continue
            if isinstance(st, ast.Try):
                yield from arms_of(st.body, label)
                continue
            yield label, st
    writers = {}
    for arm, st in arms_of(loop.body, "<loop>"):
        for n in ast.walk(st):
            tgts = []
            if isinstance(n, ast.Assign):
                tgts = n.targets
            elif isinstance(n, (ast.AugAssign, ast.AnnAssign)):
                tgts = [n.target]
            for t in tgts:
                for e in (t.elts if isinstance(t, ast.Tuple) else [t]):
                    name = None
                    if isinstance(e, ast.Name) and e.id in read_after:
                        name = e.id
                    elif isinstance(e, ast.Attribute) and isinstance(e.value, ast.Name) and e.value.id == "cls":
                        name = "cls." + e.attr
                    if name:
                        # a write guarded by "not set yet" does not override
                        guarded = False
                        x = n
                        while x in model.parents and x is not loop:
                            x = model.parents[x]
                            if isinstance(x, ast.If) and re.fullmatch(r"%s is None" % re.escape(name), ast.unparse(x.test)):
                                guarded = True
                        if not guarded:
                            writers.setdefault(name, set()).add(arm)
    if len(writers) < 4:
        raise AnalysisError(f"C19.g: only {len(writers)} configuration variables found in the argument loop (floor 4)")
    for name, arms in sorted(writers.items()):
        rep.check(len(arms) == 1, "C19.g", LCF, f"`{name}` is set by one option arm only", f"`{name}` is written by {len(arms)} different option arms ({sorted(arms)}): whichever comes last on the "
                  "command line wins, so the configuration depends on the order of different options (e.g. -o<name> before the input file was overwritten by the name derived from the file)")
    # the explicit output name is validated
    out_arm = [st for st in ast.walk(loop) if isinstance(st, ast.If) and re.match(r"option_name in \['o', 'output'\]", ast.unparse(st.test))]
    ok = bool(out_arm) and any(isinstance(i, ast.If) and ast.unparse(i.test) in ("not option_value", "option_value == ''", "len(option_value) == 0") and isinstance(i.body[-1], ast.Raise)
                              for i in out_arm[0].body)
    rep.check(ok, "C19.g", LCF, "an empty output name is refused", "`-o` with an empty value is accepted: the malformed option is silently replaced by the default name")


_run_g = run


def run(ctx, rep, tier):
    _run_g(ctx, rep, tier)
    _single_writer(ctx, rep, tier)


# ---------------------------------------------------------------------------------------------------------------- C19.h
def _resolution_details(ctx, rep, tier):
    """C19.h: three details of the resolution that the phase structure (C19.a) and the fixpoint shape (C19.d) leave open:
    (1) the implication loops contain no skip: an implied flag is switched on whether or not it was named on the command line;
    (2) the exclusion helper recurses into every implied flag unconditionally (an earlier call may already have cleared it);
    (3) `--flag x=<word>`: the accepted words are partitioned into exactly {yes, on} -> on and {no, off} -> off."""
    model = ctx.model
    fn = model.func(LCF)
    rep.rule("C19.h", "implication loops have no skip; the exclusion helper recurses into every implied flag unconditionally; =yes/on/no/off map to on/on/off/off")
    wh = next((st for st in strip_doc(fn.body) if isinstance(st, ast.While) and ".implies" in ast.unparse(st)), None)
    if wh is None:
        raise AnalysisError("C19.h: implication loop not found")
    esc = [n for n in ast.walk(wh) if isinstance(n, (ast.Continue, ast.Return))]
    brks = [n for n in ast.walk(wh) if isinstance(n, ast.Break)]
    inner = [n for n in ast.walk(wh) if isinstance(n, ast.For) and ast.unparse(n.iter).endswith(".implies")]
    shape = len(inner) == 1 and [type(s).__name__ for s in inner[0].body] == ["If", "Assign"] and len(brks) == 1
    rep.check(not esc and shape, "C19.h", LCF, "implication loop: for each implied flag `if not on: changed = True; on = True` - nothing else, no skip",
              "the implication loop skips some implied flags (e.g. those named on the command line): `-fyield-support -fno-indirect-start-ptr` yields yield support without the indirect start "
              "pointer it implies")
    aux = model.functions.get(LCF + ".aux")
    if aux is None:
        raise AnalysisError("C19.h: exclusion helper not found")
    rec = [n for n in aux.body if isinstance(n, ast.For) and ast.unparse(n.iter).endswith(".implies")]
    okr = len(rec) == 1 and isinstance(rec[0].body[-1], ast.Expr) and isinstance(rec[0].body[-1].value, ast.Call) and ast.unparse(rec[0].body[-1].value.func) == "aux" and \
        not any(isinstance(n, (ast.If, ast.Continue, ast.Break)) for st in rec[0].body for n in ast.walk(st))
    rep.check(okr, "C19.h", LCF + ".aux", "recursion into implied flags is unconditional", "the exclusion helper only recurses into implied flags that are (still) on: an earlier call may have cleared one, "
              "and the conflict it is part of goes unreported - acceptance then depends on the order of the flags")
    val = [n for n in ast.walk(fn) if isinstance(n, ast.If) and re.fullmatch(r"set_to not in \[.*\]", ast.unparse(n.test)) and any(isinstance(x, ast.Raise) for x in n.body)]
    asg = [n for n in ast.walk(fn) if isinstance(n, ast.Assign) and ast.unparse(n.targets[0]) == "set_to" and "set_to" in ast.unparse(n.value)]
    okw = False
    why = "validation / mapping of --flag values not found"
    if len(val) == 1 and len(asg) == 1:
        accepted = set(ast.literal_eval(val[0].test.comparators[0]))
        v = asg[0].value
        if isinstance(v, ast.Compare) and len(v.ops) == 1 and isinstance(v.ops[0], ast.In) and ast.unparse(v.left) == "set_to":
            truthy = set(ast.literal_eval(v.comparators[0]))
            okw = accepted == {"yes", "on", "no", "off"} and truthy == {"yes", "on"} and asg[0].lineno > val[0].lineno
            why = f"accepted {sorted(accepted)}, on-words {sorted(truthy)}"
        else:
            why = f"value mapping is `{ast.unparse(v)}`"
    rep.check(okw, "C19.h", LCF, "--flag x=<word>: {yes,on} switch on, {no,off} switch off, anything else is refused", f"{why}: some accepted spelling resolves differently from -f / -fno-")


_run_h19 = run


def run(ctx, rep, tier):
    _run_h19(ctx, rep, tier)
    _resolution_details(ctx, rep, tier)


# ---------------------------------------------------------------------------------------------------------------- C19.i
def _malformed_arguments(ctx, rep, tier):
    """C19.i: 'unknown or malformed options are reported': (1) an empty argument is an error, not skipped; (2) the two-dash form only takes the long
    names (a one-letter name after `--` would also consume the next argument as its value); (3) one-letter options that take no value refuse
    trailing text; (4) text converted with int() is first required to be plain ASCII digits (int() also accepts signs, blanks, underscores and
    the digits of other scripts)."""
    model = ctx.model
    fn = model.func(LCF)
    rep.rule("C19.i", "malformed arguments are refused: empty words, one-letter names after `--`, values on value-less short options, anything but ASCII digits where a number is expected")
    rep.check(model.has(LCF, "if not option:\n    raise RuntimeError($$m)"), "C19.i", LCF, "an empty argument is an error", "empty arguments are skipped silently")
    rep.check(model.has(LCF, "option_name = option[2:]\nif len(option_name) < 2:\n    raise RuntimeError($$m)"), "C19.i", LCF, "`--x` with a one-letter name is refused",
              "`--t`, `--h`, `--o`... are accepted as aliases of the short options; `--t -O3 in.nmfu` swallows -O3 as the value of --t")
    rep.check(model.has(LCF, "option_value = option[2:]\nif option_name in ['t', 'h'] and option_value:\n    raise RuntimeError($$m)"), "C19.i", LCF, "-t / -h refuse trailing text",
              "`-tjunk`, `-tO3` behave like `-t`: the rest of the word is ignored")
    vless = sorted(n.value for st in ast.walk(fn) if isinstance(st, ast.Compare) and ast.unparse(st.left) == "option_name" for c in st.comparators for n in ast.walk(c)
                   if isinstance(n, ast.Constant) and isinstance(n.value, str) and len(n.value) == 1)
    takes_value = {"o", "O", "f", "d"}
    rep.check(set(vless) - takes_value == {"t", "h"}, "C19.i", LCF, f"one-letter options: {sorted(set(vless))}; those without a value are exactly t and h", f"one-letter options are now {sorted(set(vless))}: re-derive which take a value")
    n = 0
    for c in calls_in(fn, nested=False):
        is_int = (isinstance(c.func, ast.Name) and c.func.id == "int") or ast.unparse(c.func) == "type(ProgramOption[p_option_name].default)"
        if not is_int or not c.args or ast.unparse(c.args[0]) != "option_value":
            continue
        n += 1
        # the statement before it in the same block: `if <...> not (option_value.isascii() and option_value.isdigit()): raise ValueError(..)`
        stmt = c
        while stmt in model.parents and not isinstance(stmt, ast.stmt):
            stmt = model.parents[stmt]
        blk = model.parents.get(stmt)
        lst = next((getattr(blk, f) for f in ("body", "orelse", "finalbody") if isinstance(getattr(blk, f, None), list) and stmt in getattr(blk, f)), [])
        prev = lst[lst.index(stmt) - 1] if stmt in lst and lst.index(stmt) > 0 else None
        ok = isinstance(prev, ast.If) and "not (option_value.isascii() and option_value.isdigit())" in ast.unparse(prev.test) and isinstance(prev.body[-1], ast.Raise)
        if ok and ast.unparse(c.func) != "int":
            ok = "type(ProgramOption[p_option_name].default) is int" in ast.unparse(prev.test)
        rep.check(ok, "C19.i", LCF, f"{ast.unparse(c)[:50]}: the text is ASCII digits (checked just before)", "a number is converted with int() unchecked: `-O+2`, `-O0_1`, `-O 2`, digits of other scripts "
                  "and negative option values are accepted", line=c.lineno)
    if n < 2:
        raise AnalysisError(f"C19.i: only {n} numeric conversions of option text found")


_run_i19 = run


def run(ctx, rep, tier):
    _run_i19(ctx, rep, tier)
    _malformed_arguments(ctx, rep, tier)


# ---------------------------------------------------------------------------------------------------------------- C19.j
def _output_name_is_an_identifier(ctx, rep, tier):
    """C19.j (F-97): the output name is interpolated into identifiers, the include guard and the #include of the generated files. A derived name is mapped to an
    identifier character by character; an explicit one (-o / --output) must be refused unless it already is one."""
    model = ctx.model
    rep.rule("C19.j", "an explicit output name is refused unless it is usable as a C identifier (a derived one is mapped to one)")
    f = model.func(LCF)
    stores = [n for n in ast.walk(f) if isinstance(n, ast.Assign) and ast.unparse(n.targets[0]) == "program_output_name" and ast.unparse(n.value) == "option_value"]
    ok = len(stores) == 1
    if ok:
        blk = model.parents.get(stores[0])
        seq = next((getattr(blk, fl) for fl in ("body", "orelse") if isinstance(getattr(blk, fl, None), list) and stores[0] in getattr(blk, fl)), [])
        guards = [s for s in seq[:seq.index(stores[0])] if isinstance(s, ast.If) and isinstance(s.body[-1], ast.Raise) and raised_class(s.body[-1]) == "RuntimeError"]
        tests = [ast.unparse(g.test) for g in guards]
        ident = any(t == "not (option_value.isascii() and option_value.replace('_', 'a').isalnum() and (not option_value[0].isdigit()))" or
                    re.fullmatch(r"not option_value\.isidentifier\(\)( or not option_value\.isascii\(\))?", t) or
                    re.fullmatch(r"(not re\.fullmatch|re\.fullmatch)\('\[A-Za-z_\]\[A-Za-z0-9_\]\*', option_value\)( is None)?", t) for t in tests)
        nonempty = any(t == "not option_value" for t in tests)
        # the identifier test indexes option_value[0]: the empty value must have been refused before it
        order = ident and nonempty and tests.index("not option_value") < next(i for i, t in enumerate(tests) if "isalnum" in t or "isidentifier" in t or "fullmatch" in t)
        ok = bool(ident and order)
    rep.check(ok, "C19.j", LCF, "-o / --output: empty refused, then anything that is not an ASCII identifier refused, then stored",
              "the value of -o / --output is stored after refusing only an extension: `-omy-parser` gives `#ifndef MY-PARSER_H` / `struct my-parser_state`, which no C compiler accepts; "
              "`-osub/x` ends in a FileNotFoundError traceback or in identifiers containing a slash", line=(stores[0].lineno if stores else f.lineno))
    rep.check(model.has(LCF, "program_output_name = ''.join((x if x in string.ascii_letters or x == '_' or (i > 0 and x in string.digits) else '_' for i, x in enumerate(program_output_name)))"),
              "C19.j", LCF, "a derived name is mapped to an identifier character by character", "derivation of the output name from the input file name changed")


_run_j19 = run


def run(ctx, rep, tier):
    _run_j19(ctx, rep, tier)
    _output_name_is_an_identifier(ctx, rep, tier)
