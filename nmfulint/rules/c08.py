"""C08 - a case statement runs exactly the clause whose pattern matched (DESIGN.md section 3, C08)."""
import ast, re
from ..core import AnalysisError
from ..srcmodel import walk_no_nested, calls_in, strip_doc, raised_class
from ..builders import chains_in, parse_chain
from ..guards import find_ifs, arm_refuses

EXPLANATION = (
    "Clause selection is the output of the parallel merge plus linking - NOT decided. Decided (thin, stated as such): "
    "C08.a a mismatch inside a case is non-consuming: the merge builds its no-match transition as a fallthrough marked "
    "as error path, so the else body / handler starts at the offending byte. C08.b else retargeting is unconditional and "
    "complete: in both arms of the has-else branch the loop ranges over every transition of the merged decider that "
    "points to the no-match handler and each is retargeted to the else body's start (or a fresh accepting state, kept "
    "fallthrough) carrying the else clause's own actions, which are found by the clause whose key contains the else "
    "marker. C08.c greedy selection picks the maximum priority, priorities are recorded per *clause* for every pattern "
    "of the clause (body clauses and action-only clauses alike), ties at the maximum and multiple non-greedy finishes are "
    "refused. C08.d finish states of a clause are linked to that clause's body / actions.")
NOT_DECIDED = "that the merged automaton tracks each pattern correctly (local-alphabet refinement, superstate bookkeeping) and that finish states correspond to exactly the matched clause"
ENGINES = ["E1 source model", "builder-chain recogniser", "refusal-guard recogniser"]

CV = "CaseNode.convert"
MG = "CaseNode._merge"
HANDLER = "current_error_handlers[ErrorReasons.NO_MATCH]"


def run(ctx, rep, tier):
    model = ctx.model
    cv = model.func(CV)
    mg = model.func(MG)

    rep.rule("C08.a", "the merge's no-match transition is a fallthrough marked as error path to the handler it was given")
    chs = [c for c in chains_in(mg) if c.root_is_ctor and c.to == "error_handling_state"]
    rep.check(len(chs) == 1 and chs[0].truthy("fallthrough") and chs[0].truthy("handles_else") and chs[0].fallthrough == "True" and "actual_else" in (chs[0].on_values or ""),
              "C08.a", MG, "DFTransition(actual_else).to(error_handling_state).fallthrough().handles_else()", f"no-match transitions of the merged case: {chs}")
    call = [c for c in calls_in(cv, nested=False) if isinstance(c.func, ast.Attribute) and c.func.attr == "_merge"]
    rep.check(len(call) == 1 and len(call[0].args) >= 2 and ast.unparse(call[0].args[1]) == HANDLER, "C08.a", CV, "merge is given the no-match handler of the enclosing scope", "merge handler argument changed")
    skip = find_ifs(mg, r"^converted_states\[processing\] in new_dfa\.accepting_states$")
    inner = skip[0].body[0] if len(skip) == 1 and len(skip[0].body) == 1 and isinstance(skip[0].body[0], ast.If) else None
    rep.check(inner is not None and isinstance(inner.body[-1], ast.Continue) and not inner.orelse and
              ast.unparse(inner.test) == "DFTransition.Else in actual_else or not any((DFTransition.Else in x.on_values for x in converted_states[processing].transitions))",
              "C08.a", MG, "finish states get no else - except the symbols a pattern continuing on Else explicitly excludes (the case ends there; shared with C17.i)",
              "finish-state handling in the merge changed")

    rep.rule("C08.b", "every transition to the no-match handler is retargeted to the else clause, unconditionally, carrying the else clause's actions")
    he = [n for n in walk_no_nested(cv) if isinstance(n, ast.Assign) and ast.unparse(n.targets[0]) == "has_else"]
    rep.check(len(he) == 1 and ast.unparse(he[0].value) == "any((None in x for x in itertools.chain(self.sub_matches.keys(), self.empty_matches)))", "C08.b", CV,
              "has_else looks at body clauses and action-only clauses", "has_else computation changed")
    ea = [n for n in ast.walk(cv) if isinstance(n, ast.Assign) and ast.unparse(n.targets[0]) == "else_actions"]
    forms = [ast.unparse(n.value) for n in ea]
    good = any(re.fullmatch(r"next\(\((\w+) for (\w+), \1 in self\.case_match_actions\.items\(\) if None in \2\)\)", f) for f in forms)
    rep.check(good and "[]" in forms, "C08.b", CV, "else actions = actions of the clause whose key contains the else marker (or none)",
              f"else actions are looked up as {forms}: an `else` combined with other patterns in one clause loses its actions")
    loops = [n for n in ast.walk(cv) if isinstance(n, ast.For) and ast.unparse(n.iter) == f"decider_dfa.transitions_pointing_to({HANDLER}, include_states=True)"]
    rep.check(len(loops) == 2, "C08.b", CV, "two retargeting loops (else with body / else without body)", f"{len(loops)} retargeting loops over the decider's no-match transitions")
    for lp in loops:
        # the only skip allowed: a transition leaving an accepting state of the decider (a clause is complete there: the case ends, it is not a mismatch)
        svar, tvar = (ast.unparse(e) for e in lp.target.elts) if isinstance(lp.target, ast.Tuple) and len(lp.target.elts) == 2 else ("?", "?")
        g0 = lp.body[0]
        okg = isinstance(g0, ast.If) and ast.unparse(g0.test) == f"{svar} in decider_dfa.accepting_states" and len(g0.body) == 1 and isinstance(g0.body[0], ast.Continue) and not g0.orelse
        rep.check(okg, "C08.b", CV, "retargeting skips exactly the transitions leaving accepting states of the decider", "the skip condition of the else retargeting changed")
        first = lp.body[1] if okg and len(lp.body) > 1 else lp.body[0]
        ch = parse_chain(first.value) if isinstance(first, ast.Expr) and isinstance(first.value, ast.Call) else None
        if ch is None or ch.root != tvar or ch.to is None:
            rep.bad("C08.b", CV, "retarget is the loop's first statement", "the else retargeting is no longer the unconditional first statement of its loop")
            continue
        with_body = "starting_state" in ch.to
        att = [a for a, pre in ch.attach]
        has_actions = any("*else_actions" in " ".join(a) for a in att)
        if with_body:
            rep.check(ch.to == "sub_dfas[original_backreference[None]].starting_state" and has_actions and ch.truthy("handles_else") and ch.fallthrough is None, "C08.b", CV,
                      "else with body: -> body start, else actions attached, stays a non-consuming error path", f"else-with-body retarget is {ch}")
        else:
            pre = [p for a, p in ch.attach if "*else_actions" in " ".join(a)]
            rep.check(ch.to == "new_state" and has_actions and pre == ["True"] and ch.truthy("fallthrough") and ch.truthy("handles_else"), "C08.b", CV,
                      "else without body: -> fresh accepting state, else actions first, fallthrough", f"body-less else retarget is {ch}")
        esc = [n for n in ast.walk(lp) if isinstance(n, (ast.Continue, ast.Break, ast.If)) and not (okg and (n is g0 or n is g0.body[0]))]
        rep.check(not esc, "C08.b", CV, "retargeting loop has no condition / skip", "the else retargeting became conditional")

    rep.rule("C08.c", "greedy: maximum priority wins, ties refused; priorities recorded per clause for each of its patterns")
    q = MG + ".create_real_state_of"
    fnm = model.func(q)
    tgt = [n for n in ast.walk(fnm) if isinstance(n, ast.Assign) and ast.unparse(n.targets[0]) == "target"]
    rep.check(len(tgt) == 1 and re.fullmatch(r"max\(corresponds_to_finishes_in, key=lambda (\w+): priorities\[\1\]\)", ast.unparse(tgt[0].value)) is not None, "C08.c", q,
              "winner = max by priority", f"greedy selection is `{ast.unparse(tgt[0].value) if tgt else None}`")
    ties = [n for n in ast.walk(fnm) if isinstance(n, ast.If) and "priorities[target]" in ast.unparse(n.test)]
    ok = len(ties) == 1 and arm_refuses(model, ties[0].body)[0] and re.search(r"(sum|len)\(.* (> 1|>= 2)$", ast.unparse(ties[0].test)) is not None
    rep.check(ok, "C08.c", q, "tie at the maximum is refused", "tie handling changed (see C09.c)")
    app = [c for c in calls_in(fnm) if isinstance(c.func, ast.Attribute) and c.func.attr == "append" and "corresponding_finish_states" in ast.unparse(c.func.value)]
    keys = sorted(ast.unparse(c.func.value) for c in app)
    rep.check(keys == ["corresponding_finish_states[next(iter(corresponds_to_finishes_in))]", "corresponding_finish_states[target]"], "C08.c", q,
              "finish state recorded for the winning / only clause", f"finish-state bookkeeping is {keys}")
    # priorities per clause
    for outer_iter in ("self.sub_matches", "self.empty_matches"):
        outer = [n for n in walk_no_nested(cv) if isinstance(n, ast.For) and ast.unparse(n.iter) == outer_iter and any(isinstance(m, ast.For) for m in n.body)]
        if len(outer) != 1:
            raise AnalysisError(f"CaseNode.convert: flatten loop over {outer_iter} not found")
        ov = ast.unparse(outer[0].target)
        pr = [n for n in ast.walk(outer[0]) if isinstance(n, ast.Assign) and ast.unparse(n.targets[0]) == "priorities[converted]"]
        rep.check(len(pr) == 1 and ast.unparse(pr[0].value) == f"self.priorities[{ov}]", "C08.c", CV, f"priority of each pattern of a clause in {outer_iter} = the clause's priority",
                  f"priority recorded as `{ast.unparse(pr[0].value) if pr else None}` (the clause key is `{ov}`): patterns silently get priority 0")
        inner = [m for m in outer[0].body if isinstance(m, ast.For)]
        rep.check(len(inner) == 1 and ast.unparse(inner[0].iter) == ov, "C08.c", CV, f"every pattern of every clause in {outer_iter} is converted and merged", "flatten loop changed")
    ps = ast.unparse(model.func("ParseCtx._parse_stmt"))
    rep.check((model.has("ParseCtx._parse_stmt", "priorities[k] = int(block.children[0].value)") or
               ((model.has("ParseCtx._parse_stmt", "priorities[self._add_case_clause(case_blocks, clause)] = int(block.children[0].value)") or
                 model.has("ParseCtx._parse_stmt", "priorities[self._add_case_clause(case_blocks, clause)] = self._convert_int(block.children[0].value)")) and
                model.has("ParseCtx._add_case_clause", "labels, body = self._parse_case_clause(clause)\n...\ncase_blocks[labels] = body\nreturn labels"))) and model.has("ParseCtx._parse_stmt", "CaseNode(case_blocks, greedy=True, priorities=priorities)"), "C08.c", "ParseCtx._parse_stmt",
              "prio N blocks record N for each of their clauses", "greedy case parsing changed")
    init = ast.unparse(model.func("CaseNode.__init__"))
    rep.check(model.has("CaseNode.__init__", "self.priorities = defaultdict(int)") and model.has("CaseNode.__init__", "self.priorities.update(priorities)"), "C08.c", "CaseNode.__init__", "unprioritised clauses default to 0", "priority defaults changed")

    rep.rule("C08.d", "finish states of a clause are linked to that clause's body (append_after) or receive that clause's actions")
    link = [c for c in calls_in(cv, nested=False) if isinstance(c.func, ast.Attribute) and c.func.attr == "append_after" and any(k.arg == "sub_states" for k in c.keywords)]
    ok = len(link) == 1 and ast.unparse(link[0].args[0]) == "refers_to" and \
        {k.arg: ast.unparse(k.value) for k in link[0].keywords} == {"sub_states": "corresponding_finish_states[i]", "chain_actions": "self.case_match_actions[original_backreference[i]]"}
    rep.check(ok, "C08.d", CV, "append_after(body of clause i, sub_states=finish states of i, chain_actions=actions of clause i)", "clause linking changed")
    rt = [n for n in ast.walk(cv) if isinstance(n, ast.Assign) and ast.unparse(n.targets[0]) == "refers_to"]
    rep.check(len(rt) == 1 and ast.unparse(rt[0].value) == "sub_dfas[original_backreference[i]]", "C08.d", CV, "body looked up through the pattern's own clause", "clause body lookup changed")
    br = [n for n in ast.walk(cv) if isinstance(n, ast.Assign) and ast.unparse(n.targets[0]) in ("original_backreference[converted]", "empty_backreference[converted]")]
    vals = sorted((ast.unparse(n.targets[0]), ast.unparse(n.value)) for n in br)
    rep.check(vals == [("empty_backreference[converted]", "empty_matches"), ("original_backreference[converted]", "None"), ("original_backreference[converted]", "sub_matches")], "C08.d", CV,
              "each converted pattern remembers its clause", f"back-references are {vals}")
    emp = [n for n in ast.walk(cv) if isinstance(n, ast.Expr) and isinstance(n.value, ast.Call) and ast.unparse(n.value).startswith("j.attach(")]
    rep.check(len(emp) == 1 and ast.unparse(emp[0].value) == "j.attach(*self.case_match_actions[true_backref], prepend=True)", "C08.d", CV, "action-only clause: its actions go on the transitions into its finish states",
              "action-only clause attachment changed")
    ate = [n for n in ast.walk(cv) if isinstance(n, ast.Assign) and ast.unparse(n.targets[0]) == "all_transitions_empty"]
    rep.check(len(ate) == 1 and ("decider_dfa.transitions_pointing_to(x) for x in corresponding_finish_states[i]" in ast.unparse(ate[0].value) or
                                 "decider_dfa.transitions_pointing_to(x) for x in left_for_good" in ast.unparse(ate[0].value)), "C08.d", CV,
              "those transitions = everything pointing into the clause's finish states (those the decider is left for good in: C08.f)", "action-only clause transition set changed")


def _shared(ctx, rep, tier):
    from ..core import Report
    from . import c05
    rep.rule("C08.e", "the fall-through optimiser translates a case's non-consuming else transition by the right symbol set (shared with C05.b): the else body still starts at the offending byte")
    sub = Report("C05")
    c05.run(ctx, sub, tier)
    hits = [v for v in sub.violations if v.rule == "C05.b"]
    for v in hits:
        rep.bad("C08.e", v.function, v.construct, v.message, v.extra, v.line)
    if not hits:
        rep.ok("C08.e", "DfaCompileCtx._optimize_shortcircuit_fallthroughs", "Else widening / proxy guards hold")


_run0 = run


def run(ctx, rep, tier):
    _run0(ctx, rep, tier)
    _shared(ctx, rep, tier)


# ---------------------------------------------------------------------------------------------------------------- C08.f
def _bodyless_clauses(ctx, rep, tier):
    """C08.f (F-36/F-37, redone as F-115): the actions of a clause without a body can sit on the transitions ENTERING a finish state of its pattern only where entering
    means 'this clause is taken, now': the decider is left for good there (every transition out of the state is an error path) and something was consumed to get there (it is
    not the decider's starting state). Everywhere else - a longer input may still select another clause or fall out to else, a repeating pattern comes round again, the
    pattern matched nothing - they wait on an action step behind the state, taken when the decider is left. (The earlier design refused two of these shapes and attached on
    entry otherwise; that missed cycles and the fall-out to else: `case { /(aa)+/ -> { h(); } } "d";` called h after every second a.)"""
    model = ctx.model
    rep.rule("C08.f", "actions of a body-less clause go on the transitions entering a finish state only where the decider is left for good there; all other finish states get an action step")
    ok_part = model.has(CV, "left_for_good = [x for x in corresponding_finish_states[i] if x is not decider_dfa.starting_state and all((t.error_handling for t in x.transitions))]\n"
                            "still_matching = [x for x in corresponding_finish_states[i] if x not in left_for_good]")
    rep.check(ok_part, "C08.f", CV, "finish states are split: left for good (not the start, only error paths out) / still matching",
              "the actions of a body-less clause are attached on entry to every finish state of its pattern: where the decider goes on matching from there the clause is not (yet) the one taken - "
              "`case { /(aa)+/ -> { h(); } } \"d\";` calls h after every second a; with an else clause h runs although the input falls out to else; "
              "`greedy case { prio 1 \"de\" -> { n = [n+1]; } /[a-z]+/ -> { r = 3; } }` runs clauses that are not selected")
    ok_att = model.has(CV, "all_transitions_empty = set().union(*(decider_dfa.transitions_pointing_to(x) for x in left_for_good))") and \
        model.has(CV, "for j in all_transitions_empty:\n    j.attach(*self.case_match_actions[true_backref], prepend=True)")
    rep.check(ok_att, "C08.f", CV, "entry attachment only for the states left for good", "the set of transitions that receive a body-less clause's actions on entry changed")
    ok_step = model.has(CV, "if still_matching and self.case_match_actions[true_backref]:\n    decider_dfa.append_action_step(self.case_match_actions[true_backref], still_matching)")
    rep.check(ok_step, "C08.f", CV, "the other finish states get the clause's actions on an action step (taken when the decider is left)",
              "finish states from which the decider goes on matching (or the starting state: a pattern that matched nothing) do not get the clause's actions at all")


_run_f = run


def run(ctx, rep, tier):
    _run_f(ctx, rep, tier)
    _bodyless_clauses(ctx, rep, tier)
    from .shared import delegate
    delegate(ctx, rep, tier, "C07", ("C07.a",), "C08.g", "clause patterns built from character classes: the class algebra (split / union / invert) the merged decider is built from is exact")
    from . import structs
    structs.check_cull_policy(ctx, rep, "C08.i")       # what follows a clause pattern takes over only what the decider's finish state does not name itself (its explicit exclusions stay)
    # C08.h (F-114) - stated here directly (C01 delegates into this module: a delegate back would be circular)
    rep.rule("C08.h", "the leading actions of a clause whose body can match nothing wait on an action step where the decider goes on matching from the pattern's finish state")
    okh = ctx.model.has("DFA.append_after", "entered_otherwise = [x for x in sub_states if x is self.starting_state or x in jumped_to or any((not t.error_handling for t in x.transitions))]") and \
        ctx.model.has("DFA.append_after", "if entered_otherwise:\n    sub_states = [x for x in sub_states if x not in entered_otherwise] + [self.append_action_step(chain_actions, entered_otherwise)]")
    rep.check(okh, "C08.h", "DFA.append_after", "join states that go on matching are given the action step, not the entering transitions",
              "with a body that can match nothing, a clause's leading actions are put on the transitions entering the pattern's finish state although a longer pattern continues from there: "
              "`greedy case { \"a\" -> { x = 1; optional { \"c\"; } } \"ab\" -> { y = 2; } }` sets x on \"abd\" although the second clause is the one selected")
