"""C11 - every accepted program compiles cleanly in every option combination (DESIGN.md section 3, C11)."""
import ast, re
from ..core import AnalysisError
from ..tmpl import transition_body_paths, iter_lines, true_flags, flatten_items, action_contexts, feasible_action_path
from ..cevents import events_of, classify
from ..emit import Line, LoopBlock, CallBlock, SStr
from ..srcmodel import walk_no_nested, calls_in, strip_doc

EXPLANATION = (
    "'Compiles' for all programs is a property of the templates. C11.a: per emitted function (feed / end), every goto kind "
    "some emission path can produce has a label of that kind whose emission condition is implied by the goto's, and the "
    "label side ranges over the same transitions the goto side does. C11.b: declaration (header) and definition "
    "(source) of end/free/hooks are guarded by the same flag atoms and rendered from the same signature expressions. "
    "C11.c: every path emitting malloc/free runs under atoms that imply DYNAMIC_MEMORY in the flag table's implication "
    "closure (the atom that includes <stdlib.h> and declares free). C11.d: identifiers are spelled by the same expression "
    "on the declaring and the using side (result enumerators, enum constants, hooks, counters). C11.e: end() never "
    "mentions `start`; `inval` is supplied by a #define/#undef pair. C11.f: the integer-width table is total over what "
    "the front end admits, or refuses with a diagnosed error. C11.g: `inval` is referenced whenever it is declared.")
NOT_DECIDED = ("C++ validity of the header beyond the extern-C guard pairing; warnings that depend on user-supplied raw type "
               "names; per-program label numbers; that user identifiers do not collide with C keywords")
ENGINES = ["E1 source model", "E5 emission-path enumerator", "E6 C-line events", "E7 flag table"]

TB = "CodegenCtx._generate_transition_body"
ACT = "CodegenCtx._generate_action_implementation"
FEED = "CodegenCtx._generate_feed_implementation"
END = "CodegenCtx._generate_end_implementation"


def run(ctx, rep, tier):
    model, E, flags = ctx.model, ctx.emit, ctx.flags
    tbs = transition_body_paths(ctx)
    classes = [c for c in model.concrete_subclasses("Action") if c != "Action"]

    # ------------------------------------------------------------------ C11.a labels
    rep.rule("C11.a", "every goto kind emitted inside feed / end has a label of that kind emitted by that function's template under an implied condition")
    # goto kinds per context
    goto_ctx = {"feed": {}, "end": {}}   # kind -> example
    for tb in tbs:
        ctxs = ["end"] if tb.get("FROM_END") is True else (["feed"] if tb.get("FROM_END") is False else ["feed", "end"])
        for e in tb.events:
            if e.kind == "GOTO":
                for c in ctxs:
                    goto_ctx[c].setdefault(e.a, (TB, tb.valuation_str(), e.text.strip()))
    actx = action_contexts(ctx)
    for cl in classes:
        fp = E.enumerate(ACT, classes={"action": cl})
        for p, val, it in iter_lines(fp):
            if not feasible_action_path(val, actx):
                continue
            for e in classify(it.text()):
                if e.kind == "GOTO":
                    if val.get("transition is None") is True or val.get("is_start") is True:
                        rep.bad("C11.a", ACT, f"{cl}: goto in start()", f"{e.text.strip()} emitted on a start()-context path: start() has no labels")
                        continue
                    ctxs = ["end"] if val.get("is_end") is True else (["feed"] if val.get("is_end") is False else ["feed", "end"])
                    for c in ctxs:
                        goto_ctx[c].setdefault(e.a, (ACT + ":" + cl, "", e.text.strip()))
    # condition points run in both contexts and embed transition bodies (covered above)
    label_ctx = {"feed": {}, "end": {}}
    for fnq, c in ((FEED, "feed"), (END, "end")):
        fp = E.enumerate(fnq)
        for p, val, it in iter_lines(fp):
            for e in classify(it.text()):
                if e.kind == "LABEL":
                    label_ctx[c].setdefault(e.a, []).append(val)
    # skipaction labels are emitted by the transition body itself
    for tb in tbs:
        for e in tb.events:
            if e.kind == "LABEL":
                for c in (["end"] if tb.get("FROM_END") is True else (["feed"] if tb.get("FROM_END") is False else ["feed", "end"])):
                    label_ctx[c].setdefault(e.a, []).append(tb.roles)
    for c in ("feed", "end"):
        for kind, (where, valstr, text) in sorted(goto_ctx[c].items()):
            rep.check(kind in label_ctx[c], "C11.a", where.split(":")[0], f"{c}(): goto {kind}",
                      f"`{text}` can be emitted inside {c}() but {c}()'s template never emits a `{kind}` label: 'label used but not defined'",
                      detail={"goto": text, "valuation": valstr})
    if "repeatswitch" not in goto_ctx["feed"] or "fall" not in goto_ctx["end"]:
        raise AnalysisError("C11.a: expected goto kinds not found (anchor drift)")
    # label predicate vs goto predicate for fall_/jpto_
    rep.rule("C11.a2", "fall_N / jpto_N: the label side evaluates the same direct-jump predicate as the goto side, over every transition of every state "
                       "in self.dfa.states (not only the reachable ones)")
    for fnq, c in ((FEED, "feed"), (END, "end")):
        fn = model.func(fnq)
        loop = None
        for n in walk_no_nested(fn):
            if isinstance(n, ast.For) and "self.dfa.states" in ast.unparse(n.iter):
                loop = n
        if loop is None:
            raise AnalysisError(f"{fnq}: case loop over self.dfa.states not found")
        conds = {}
        for n in ast.walk(loop):
            if isinstance(n, ast.If):
                body_src = " ".join(ast.unparse(b) for b in n.body)
                for kind in ("fall_", "jpto_"):
                    if kind + "{" in body_src and ".add(" in body_src:
                        conds[kind] = n.test
        want = ["fall_", "jpto_"] if c == "feed" else ["fall_"]
        for kind in want:
            if kind not in conds:
                raise AnalysisError(f"{fnq}: emission condition of {kind}N label not found")
            src = ast.unparse(conds[kind])
            # resolve a local iteration-domain variable (e.g. `incoming = [...]` inside the loop)
            dom_src = src
            for n in ast.walk(loop):
                if isinstance(n, ast.Assign) and len(n.targets) == 1 and isinstance(n.targets[0], ast.Name) and re.search(r"\b" + n.targets[0].id + r"\b", src):
                    dom_src = dom_src + " WHERE " + ast.unparse(n)
            if kind == "fall_":
                pred_ok = "is_fallthrough" in src and (c == "end" or ("_transition_will_directly_jump" in src and "excl_fall=True" in src))
            else:
                pred_ok = "_transition_will_directly_jump" in src and "excl_fall" not in src
            rep.check(pred_ok, "C11.a2", fnq, f"{kind}N label predicate", f"label condition `{src}` is not the goto side's predicate")
            reach_only = re.search(r"self\.dfa\.(transitions_pointing_to|all_transitions|dfs|transitions_that_do|error_handling_transitions)\(", dom_src) is not None
            all_states = re.search(r"for \w+ in self\.dfa\.states", dom_src) is not None
            rep.check(all_states and not reach_only or (not reach_only and all_states), "C11.a2", fnq, f"{kind}N label iteration domain",
                      f"label condition ranges over `transitions_pointing_to` (reachable transitions only) while gotos are emitted for every state in "
                      f"self.dfa.states: without remove-inaccessible-states an unreachable state emits `goto {kind}N` for a label no reachable transition asks for")
    # skipaction: goto <=> label tag
    rep.rule("C11.a3", "skipaction label is emitted by the transition body whenever a break template emitted its goto (same label expression, tag set by the template)")
    fp = E.enumerate(ACT, classes={"action": "BreakAction"})
    n = 0
    for p in fp.paths:
        evs = events_of(fp.lines(p))
        g = [e for e in evs if e.kind == "GOTO" and e.a == "skipaction"]
        if g:
            n += 1
            tagged = any("ACTION_MAY_SKIP" in eff for eff in p.effects)
            rep.check(tagged and g[0].b == "[[id(transition)]]", "C11.a3", ACT, "BreakAction: goto skipaction tags the action",
                      "break template emits goto skipaction_ without recording ACTION_MAY_SKIP (the label is emitted from that tag)")
    lab = [tb for tb in tbs if any(e.kind == "LABEL" and e.a == "skipaction" for e in tb.events)]
    rep.check(bool(lab) and all(tb.get("MAYSKIP") is True for tb in lab) and all(any(e.kind == "LABEL" for e in tb.events) for tb in tbs if tb.get("MAYSKIP") is True),
              "C11.a3", TB, "skipaction label iff tag", "skipaction label emission does not coincide with the ACTION_MAY_SKIP tag")
    skip_atoms = {a for tb in tbs for a in tb.path.atoms if "ACTION_MAY_SKIP" in a}
    rep.check(len(skip_atoms) == 1 and ".all_subactions()" in next(iter(skip_atoms)) and "transition.actions" in next(iter(skip_atoms)), "C11.a3", TB,
              "skip tag searched through all (transitively) embedded actions of the transition",
              f"the skipaction label is decided from {sorted(skip_atoms)}: a break nested deeper than that search emits its goto without the label")
    for tb in lab[:1]:
        e = next(e for e in tb.events if e.kind == "LABEL" and e.a == "skipaction")
        rep.check(e.b == "[[id(transition)]]", "C11.a3", TB, "label expression", "skipaction label name differs from the goto's")
        i_loop = next(i for i, x in enumerate(tb.events) if x.kind == "LOOP")
        i_lab = tb.events.index(e)
        rep.check(i_lab > i_loop, "C11.a3", TB, "label after actions", "skipaction label must follow the actions it skips")
    if n == 0:
        raise AnalysisError("C11.a3: break template goto not found")

    # ------------------------------------------------------------------ C11.b declaration / definition agreement
    rep.rule("C11.b", "end/free/hooks are declared and defined under the same flag atoms; feed's signature is rendered identically in header and source")
    hp = E.enumerate("CodegenCtx.generate_header")
    sp = E.enumerate("CodegenCtx.generate_source")
    rep.count("emission_paths:generate_header", len(hp.paths))
    rep.count("emission_paths:generate_source", len(sp.paths))
    decl_cond = {}
    for p in hp.paths:
        evs = events_of(fp_lines(hp, p), strict=False)
        present = {e.a for e in evs if e.kind == "FUNCDECL"}
        for f in ("start", "feed", "end", "free"):
            decl_cond.setdefault(f, []).append((p.valuation(), f in present))
    def_cond = {}
    for p in sp.paths:
        calls = {it.call.callee for it in sp.lines(p) if isinstance(it, CallBlock)}
        m = {"start": "_generate_start_implementation", "feed": "_generate_feed_implementation", "end": "_generate_end_implementation", "free": "_generate_free_implementation"}
        for f, callee in m.items():
            def_cond.setdefault(f, []).append((p.valuation(), callee in calls))
    want_atom = {"start": None, "feed": None, "end": "F:EOF_SUPPORT", "free": "F:DYNAMIC_MEMORY"}
    for f, atom in want_atom.items():
        for side, conds in (("declared", decl_cond[f]), ("defined", def_cond[f])):
            ok = all(present == (True if atom is None else bool(val.get(atom))) for val, present in conds)
            rep.check(ok, "C11.b", "CodegenCtx.generate_header" if side == "declared" else "CodegenCtx.generate_source", f"{f}() {side} iff {atom or 'always'}",
                      f"{f}() is not {side} exactly under {atom or 'every configuration'}: documented API / link error")
    # signature agreement
    sigs_h = {}
    for p in hp.paths:
        for e in events_of(fp_lines(hp, p), strict=False):
            if e.kind == "FUNCDECL":
                sigs_h.setdefault((e.a, p.atoms.get("F:INDIRECT_START_PTR") if e.a == "feed" else None), set()).add(e.b)
    sigs_c = {}
    for q, f in ((FEED, "feed"), (END, "end"), ("CodegenCtx._generate_start_implementation", "start"), ("CodegenCtx._generate_free_implementation", "free")):
        fp = E.enumerate(q)
        for p in fp.paths:
            for e in events_of([i for i in fp.lines(p) if isinstance(i, Line)], strict=False):
                if e.kind == "FUNCDEF":
                    sigs_c.setdefault((e.a, p.atoms.get("F:INDIRECT_START_PTR") if e.a == "feed" else None), set()).add(e.b)
    for k in sorted(sigs_h, key=str):
        rep.check(sigs_c.get(k) == sigs_h[k] and len(sigs_h[k]) == 1, "C11.b", "CodegenCtx.generate_header", f"signature of {k[0]}() [indirect={k[1]}]",
                  f"header declares ({sigs_h[k]}) but source defines ({sigs_c.get(k)})")
    if len(sigs_h) < 5:
        raise AnalysisError("C11.b: fewer than 5 declared signatures found")
    # hooks
    hook_decl = {"global": set(), "perstate": set()}
    for p, val, it in iter_lines(hp):
        t = it.text()
        m = re.match(r"^\s*void (\S+)_\[\[hook\]\]_hook\((.*)\);$", t)
        if m:
            hook_decl["global"].add((frozenset(true_flags(val)) & {"HOOK_GLOBAL", "HOOK_PER_STATE"}, m.group(2)))
    so = E.enumerate("CodegenCtx._generate_state_object_decl")
    for p, val, it in iter_lines(so):
        t = it.text()
        if re.match(r"^\s*\S+_hook_t \[\[hook\]\]_hook;$", t):
            hook_decl["perstate"].add((frozenset(true_flags(val)) & {"HOOK_GLOBAL", "HOOK_PER_STATE"}, ""))
    fp = E.enumerate(ACT, classes={"action": "CallHook"})
    uses = {"global": set(), "perstate": set()}
    for p, val, it in iter_lines(fp):
        for e in classify(it.text()):
            if e.kind == "HOOKCALL":
                uses[e.a].add(frozenset(k for k in ("HOOK_GLOBAL", "HOOK_PER_STATE") if val.get("F:" + k)))
    rep.check(hook_decl["global"] and all(fl == frozenset({"HOOK_GLOBAL"}) for fl, _ in hook_decl["global"]) and uses["global"] == {frozenset({"HOOK_GLOBAL"})} | (
              {frozenset({"HOOK_GLOBAL", "HOOK_PER_STATE"})} if frozenset({"HOOK_GLOBAL", "HOOK_PER_STATE"}) in uses["global"] else set()),
              "C11.b", "CodegenCtx.generate_header", "global hooks: prototype iff HOOK_GLOBAL iff global call form",
              f"global hook prototypes under {hook_decl['global']}, global call form under {uses['global']}")
    rep.check(hook_decl["perstate"] and all("HOOK_PER_STATE" in fl for fl, _ in hook_decl["perstate"]) and all("HOOK_PER_STATE" in u and "HOOK_GLOBAL" not in u for u in uses["perstate"]) and uses["perstate"],
              "C11.b", "CodegenCtx._generate_state_object_decl", "per-state hooks: member iff HOOK_PER_STATE, call through the member",
              f"hook members under {hook_decl['perstate']}, member call form under {uses['perstate']}")
    # hook argument types agree (state pointer, uint8_t)
    proto_args = {a for _, a in hook_decl["global"]}
    rep.check(proto_args == {"[[prog]]_state_t *state, uint8_t inval"}, "C11.b", "CodegenCtx.generate_header", "hook prototype arguments",
              f"hook prototype arguments are {proto_args}")

    # ------------------------------------------------------------------ C11.c library use implies include
    rep.rule("C11.c", "malloc/free are emitted only under atoms that imply DYNAMIC_MEMORY (which includes <stdlib.h> and declares free()); memcpy -> <string.h>")
    inc = {}
    for p, val, it in iter_lines(sp):
        for e in classify(it.text(), strict=False):
            if e.kind == "INCLUDE":
                inc.setdefault(e.a, []).append(val)
    rep.check("<string.h>" in inc and len(inc["<string.h>"]) == len(sp.paths), "C11.c", "CodegenCtx.generate_source", "<string.h> unconditional",
              "<string.h> (memcpy, NULL) is not included on every path")
    rep.check("<stdlib.h>" in inc and all(v.get("F:DYNAMIC_MEMORY") for v in inc["<stdlib.h>"]) and
              sum(1 for p in sp.paths if p.atoms.get("F:DYNAMIC_MEMORY")) == len(inc.get("<stdlib.h>", [])),
              "C11.c", "CodegenCtx.generate_source", "<stdlib.h> iff DYNAMIC_MEMORY", "<stdlib.h> is not included exactly under DYNAMIC_MEMORY")
    n_m = 0
    todo = [(ACT, {"action": cl}) for cl in classes] + [(q, None) for q in ("CodegenCtx._generate_start_implementation", "CodegenCtx._generate_free_implementation",
                                                                          "CodegenCtx._generate_code_for_int_expr")]
    seen = set()
    for q, cls in todo:
        fp = E.enumerate(q, classes=cls) if q != "CodegenCtx._generate_code_for_int_expr" else E.enumerate(q, classes={"intexpr": "StringRefIntegerExpr"})
        for p, val, it in iter_lines(fp):
            t = it.text()
            if re.search(r"\b(malloc|free)\(", t):
                tf = true_flags(val)
                ok = any(flags.implies(f, "DYNAMIC_MEMORY") for f in tf if f in flags.flags)
                k = (q, cls and cls.get("action"), re.sub(r"\[\[.*?\]\]", "_", t.strip()), ok)
                if k in seen:
                    continue
                seen.add(k)
                n_m += 1
                rep.check(ok, "C11.c", q, f"{(cls or {}).get('action', '')}: {t.strip()[:70]}",
                          f"malloc/free emitted under flags {sorted(tf)} none of which implies DYNAMIC_MEMORY: <stdlib.h> is not included there")
    if n_m < 6:
        raise AnalysisError(f"C11.c: only {n_m} malloc/free template sites found")
    # NULL needs a header too: string.h (always) provides it

    # ------------------------------------------------------------------ C11.d identifier agreement
    rep.rule("C11.d", "an identifier is spelled by the same expression where it is declared and where it is used")
    decl = {}
    for p, val, it in iter_lines(hp):
        t = it.text().strip()
        m = re.match(r"^\[\[PROG\]\]_(OK|FAIL|DONE),$", t) or re.match(r"^\[\[PROG\]\]_(FINISH|YIELD)_\[\[(\w+)\]\],$", t)
        if m:
            decl[m.group(1)] = t
    for need in ("OK", "FAIL", "DONE", "FINISH", "YIELD"):
        rep.check(need in decl, "C11.d", "CodegenCtx.generate_header", f"result enumerator {need} declared as [[PROG]]_{need}...",
                  f"result enumerator for {need} is not declared with the {{PROG}}_{need} spelling that every `return` template uses")
    # all RET events across templates use PROG-upper prefix
    bad_ret = set()
    n_ret = 0
    for q, cls in [(ACT, {"action": cl}) for cl in classes] + [(x, None) for x in (TB, FEED, END, "CodegenCtx._generate_switch_body", "CodegenCtx._generate_end_switch_body",
                                                                                 "CodegenCtx._generate_condition_point_body", "CodegenCtx._generate_start_implementation")]:
        fp = E.enumerate(q, classes=cls)
        for p, val, it in iter_lines(fp):
            t = it.text().strip()
            for m in re.finditer(r"return (\S+?)_(OK|FAIL|DONE|FINISH_\S+|YIELD_\S+);", t):
                n_ret += 1
                if m.group(1) != "[[PROG]]":
                    bad_ret.add((q, t))
                tail = m.group(2)
                if tail.startswith("FINISH_") and tail != "FINISH_[[action.result_code]]":
                    bad_ret.add((q, t))
                if tail.startswith("YIELD_") and tail != "YIELD_[[action.result_code]]":
                    bad_ret.add((q, t))
    for q, t in sorted(bad_ret):
        rep.bad("C11.d", q, "return spelling: " + t, "result code spelled differently from its declaration")
    if n_ret < 20:
        raise AnalysisError("C11.d: return templates not found")
    rep.ok("C11.d", "all templates", f"{n_ret} return templates use the declared enumerator spelling")
    # enum constants
    oe = E.enumerate("CodegenCtx._generate_out_enum")
    decl_forms = set()
    for p, val, it in iter_lines(oe):
        t = it.text().strip()
        m = re.match(r"^\[\[PROG\]\]_\[\[(\w+)\.name\.upper\(\)\]\]_\[\[(.+)\]\],$", t)
        if m:
            decl_forms.add(re.sub(r"^\w+", "V", m.group(2)))
    cl = E.enumerate("CodegenCtx._convert_literal_value")
    use_forms = set()
    for p in cl.paths:
        if p.end and p.end[0] == "return" and isinstance(p.end[1], SStr) and p.valuation().get("literal.result_type() == OutputStorageType.ENUM"):
            t = p.end[1].text()
            m = re.match(r"^\[\[PROG\]\]_\[\[literal\.model_ref\.name\.upper\(\)\]\]_\[\[(.+)\]\]$", t)
            if m:
                use_forms.add(re.sub(r"^literal\.get_literal_result\(\)", "V", m.group(1)))
            else:
                use_forms.add("?" + t)
    rep.check(bool(decl_forms) and decl_forms == use_forms, "C11.d", "CodegenCtx._generate_out_enum", "enum constant spelling: declared vs used",
              f"enum constants are declared as {{PROG}}_{{OUT}}_<{sorted(decl_forms)}> but used as <{sorted(use_forms)}> (V = the constant's name): "
              "any enum constant with a lower-case letter is undeclared where it is used")
    # enum type name, counters, hook names
    tn_decl = set()
    for p, val, it in iter_lines(oe):
        m = re.match(r"^typedef enum \[\[prog\]\]_out_\[\[out_decl\.name\]\] (\S+);$", it.text().strip())
        if m:
            tn_decl.add(m.group(1))
    od = E.enumerate("CodegenCtx._get_state_object_out_declaration")
    tn_use = set()
    for p in od.paths:
        if p.end and p.end[0] == "return" and isinstance(p.end[1], SStr) and p.valuation().get("out_decl.type == OutputStorageType.ENUM"):
            tn_use.add(p.end[1].text().split(" ")[0])
    rep.check(tn_decl == tn_use and len(tn_decl) == 1, "C11.d", "CodegenCtx._generate_out_enum", "enum type name declared vs used", f"{tn_decl} vs {tn_use}")
    cnt_decl = set()
    for p, val, it in iter_lines(so):
        m = re.match(r"^.* \[\[(\w+)\.name\]\]_counter;$", it.text().strip())
        if m:
            cnt_decl.add("[[X.name]]_counter")
    rep.check(cnt_decl == {"[[X.name]]_counter"}, "C11.d", "CodegenCtx._generate_state_object_decl", "counter member name", f"{cnt_decl}")

    # ------------------------------------------------------------------ C11.e end() is pointer free, inval defined
    rep.rule("C11.e", "end() never mentions `start`; `inval` is supplied by a #define / #undef pair around its body")
    n_e = 0
    for tb in tbs:
        if tb.get("FROM_END") is not False:     # end() context, or a path that never asked (it is then emitted into end() as well)
            n_e += 1
            bad = [l for l in tb.lines() if re.search(r"\bstart\b|\bend\b", re.sub(r"\[\[.*?\]\]", "", l)) and not l.strip().startswith("//")]
            if tb.get("FROM_END") is None and tb.get("FALL") is True:
                continue   # fallthrough paths never touch the pointer in either context (checked by their row)
            rep.check(not bad, "C11.e", TB, "from_end: " + tb.valuation_str(), f"end()-context transition body mentions start/end: {bad}")
    fp = E.enumerate(END)
    for p in fp.paths:
        evs = events_of([i for i in fp.lines(p) if isinstance(i, Line)], strict=False)
        ks = [e.kind for e in evs]
        ok = "DEFINE_INVAL" in ks and "UNDEF_INVAL" in ks and ks.index("DEFINE_INVAL") < ks.index("SWITCH") < ks.index("UNDEF_INVAL")
        sig = next((e for e in evs if e.kind == "FUNCDEF"), None)
        rep.check(ok and sig is not None and "start" not in sig.b, "C11.e", END, "inval #define/#undef around the switch; no start parameter",
                  "end() does not define `inval` for its body or takes a start pointer")
    esb = model.func("CodegenCtx._generate_end_switch_body")
    calls = [c for c in calls_in(esb, nested=False) if isinstance(c.func, ast.Attribute) and c.func.attr in ("_generate_transition_body", "_generate_condition_point_body")]
    for c in calls:
        fe = (len(c.args) >= 2 and isinstance(c.args[1], ast.Constant) and c.args[1].value is True) or any(k.arg == "from_end" and isinstance(k.value, ast.Constant) and k.value.value is True for k in c.keywords)
        rep.check(fe, "C11.e", "CodegenCtx._generate_end_switch_body", ast.unparse(c), "end() renders a transition / condition point without from_end=True: feed-only code (start pointer) leaks into end()")
    sb = model.func("CodegenCtx._generate_switch_body")
    for c in calls_in(sb, nested=False):
        if isinstance(c.func, ast.Attribute) and c.func.attr in ("_generate_transition_body", "_generate_condition_point_body"):
            fe = len(c.args) >= 2 or any(k.arg == "from_end" for k in c.keywords)
            rep.check(not fe, "C11.e", "CodegenCtx._generate_switch_body", ast.unparse(c), "feed() renders a transition with from_end set")
    if n_e < 10 or len(calls) < 2:
        raise AnalysisError("C11.e: end-context instances not found")

    # ------------------------------------------------------------------ C11.f width table
    rep.rule("C11.f", "_integer_containing(width=w): a width outside the table is refused with a diagnosed error before the looked-up value is used")
    ic = model.func("CodegenCtx._integer_containing")
    # find `maxval = {...}.get(width, None)` then use in arithmetic before a None test
    got = None
    for n in walk_no_nested(ic):
        if isinstance(n, ast.Assign) and isinstance(n.value, ast.Call) and isinstance(n.value.func, ast.Attribute) and n.value.func.attr == "get" \
                and isinstance(n.value.func.value, ast.Dict):
            got = n
    if got is None:
        rep.ok("C11.f", "CodegenCtx._integer_containing", "width table not looked up with .get (total subscript or other form)", nontrivial=False)
    else:
        var = got.targets[0].id
        parent_if = None
        for n in walk_no_nested(ic):
            if isinstance(n, ast.If) and got in n.body:
                parent_if = n
        body = parent_if.body if parent_if else ic.body
        idx = body.index(got)
        guarded = False
        unsafe_use = None
        for st in body[idx + 1:]:
            src = ast.unparse(st)
            if isinstance(st, ast.If) and re.search(r"\b" + var + r" is None\b", ast.unparse(st.test)) and any(isinstance(x, ast.Raise) for x in ast.walk(st)):
                guarded = True
                break
            if isinstance(st, ast.If) and re.search(r"\b" + var + r" is None\b|\bwidth not in\b", ast.unparse(st.test)):
                guarded = True
                break
            for x in ast.walk(st):
                if isinstance(x, ast.AugAssign) and isinstance(x.target, ast.Name) and x.target.id == var:
                    unsafe_use = ast.unparse(x)
                if isinstance(x, ast.BinOp) and any(isinstance(y, ast.Name) and y.id == var for y in ast.walk(x)):
                    unsafe_use = ast.unparse(x)
            if unsafe_use:
                break
        keys = [ast.literal_eval(k) for k in got.value.func.value.keys]
        rep.check(guarded or unsafe_use is None, "C11.f", "CodegenCtx._integer_containing", "width lookup may be None",
                  f"`{var}` comes from a .get(width, None) over widths {keys} and is used in `{unsafe_use}` with no None test: "
                  "any other declared size (the manual's own `size 16`) dies with TypeError instead of a diagnosed error", line=got.lineno)

    # ------------------------------------------------------------------ C11.i start() has no `inval`
    rep.rule("C11.i", "start() declares no `inval`: no template line emitted in start()-context (is_start) mentions it")
    n_i = 0
    for cl in classes:
        o, cst = model.const_return(cl, "get_mode")
        if cst is not None and ast.unparse(cst) == "ActionMode.EACH_CHARACTER":
            continue   # per-character actions only ever sit on match transitions (Match.attach); they cannot be start actions
        fp = E.enumerate(ACT, classes={"action": cl})
        bad = set()
        for p, val, it in iter_lines(fp):
            if val.get("is_start") is True and feasible_action_path(val, actx):
                n_i += 1
                t = re.sub(r"\[\[.*?\]\]", "", it.text())
                if re.search(r"\binval\b", t) and not it.text().strip().startswith("//"):
                    bad.add(it.text().strip())
        for t in sorted(bad):
            rep.bad("C11.i", ACT, f"{cl} in start(): {t[:60]}", f"`{t}` is emitted into start(), where no `inval` exists: 'inval undeclared'")
        if not bad:
            rep.ok("C11.i", ACT, f"{cl}: start()-context lines are inval-free", nontrivial=False)
    if n_i < 10:
        raise AnalysisError("C11.i: start-context template lines not found")

    # ------------------------------------------------------------------ C11.h allocation calls only on pointer-declared members
    rep.rule("C11.h", "malloc / free / NULL assignment are only emitted for members declared as pointers (heap strings); raw and in-struct outputs are scalars / arrays")
    from .c03 import check_alloc_only_heap
    check_alloc_only_heap(rep, model, E, "C11.h")

    # ------------------------------------------------------------------ C11.g inval referenced whenever declared
    rep.rule("C11.g", "a C local declared on every path of feed() is referenced on every path (else -Wunused-but-set-variable under -Wall -Werror)")
    fp = E.enumerate(FEED)
    for p in fp.paths:
        lines = [i.text() for i in fp.lines(p) if isinstance(i, Line)]
        decl_i = [i for i, l in enumerate(lines) if re.match(r"^\s*uint8_t inval = ", l)]
        if not decl_i:
            raise AnalysisError("C11.g: inval declaration not found")
        used = any(re.search(r"\(void\)\s*inval|\binval\b(?!\s*=)", l) for l in lines[decl_i[0] + 1:] if not re.match(r"^\s*uint8_t inval = ", l))
        rep.check(used, "C11.g", FEED, "inval referenced unconditionally [" + ", ".join(f"{k}={'T' if v else 'F'}" for k, v in sorted(p.atoms.items())) + "]",
                  "`inval` is declared and assigned on every path but read only inside optional template parts (byte tests, $last, appends, hooks): a machine "
                  "without any of them (`/.+/`, `wait end`) fails -Werror=unused-but-set-variable")


def fp_lines(fp, p):
    return [i for i in flatten_items(fp.lines(p)) if isinstance(i, Line)]


def _shared(ctx, rep, tier):
    from .shared import delegate
    model = ctx.model
    rep.rule("C11.k", "a state is emitted once: adopting another machine's states never duplicates a state already present (duplicate case bodies duplicate their labels)")
    ok = model.has("DFA.append_after", "for state in chained_dfa.states:\n    if state not in self.states:\n        self.add(state)")
    rep.check(ok, "C11.k", "DFA.append_after", "states of the chained machine are adopted only if not already present",
              "append_after adopts the chained machine's states unconditionally: a body shared by several case labels is emitted once per label, and a label inside it "
              "(skipaction_<id>) is then defined twice - 'duplicate label'")
    delegate(ctx, rep, tier, "C13", ("C13.e",), "C11.j", "names interpolated into C identifiers are resolved strings: identifier-kind macro arguments are bound to their entity at the call",
             where="MacroArgument.should_early_bind", pred=lambda v: "early" in v.construct or "early" in v.message)


_run0 = run


def run(ctx, rep, tier):
    _run0(ctx, rep, tier)
    _shared(ctx, rep, tier)


_run_lm11 = run


def run(ctx, rep, tier):
    _run_lm11(ctx, rep, tier)
    from .shared import delegate
    delegate(ctx, rep, tier, "C01", ("C01.l",), "C11.l", "sub-actions of conditional actions are enumerated recursively (a break nested in action-only ifs is found when the skip label is decided)",
             pred=lambda v: "all_subactions" in v.function or "embeds" in v.function)
    delegate(ctx, rep, tier, "C14", ("C14.d",), "C11.m", "integer conditions are rendered as `!= 0` comparisons (a bare shift / product as condition trips -Werror=int-in-bool-context)")


# ---------------------------------------------------------------------------------------------------------------- C11.n / o / p
def _values_and_names_in_c(ctx, rep, tier):
    """User-written names and values are pasted into C. C11.o: names that become identifiers are validated (reserved words; uniqueness of the
    generated enumerators); C11.p: string constants cannot form trigraphs; C11.n (open finding F-64): constant operands that gcc -Wall rejects
    (zero divisor, shift count out of range, constant that does not fit its destination) and comparisons gcc lints (self comparison, bool
    against integer, two different enums) are emitted unchecked."""
    import ast, re
    model = ctx.model
    rep.rule("C11.o", "names pasted into C identifiers are validated: output names against the reserved words of C and C++, generated enumerators (enum constants, result codes) for uniqueness")
    q = "ParseCtx.parse"
    words = model.module_assigns.get("C_RESERVED_WORDS")
    wl = set()
    if words is not None:
        for n in ast.walk(words):
            if isinstance(n, ast.Constant) and isinstance(n.value, str):
                wl |= set(n.value.split())
    need = {"for", "int", "struct", "while", "bool", "true", "false", "class", "new", "delete", "namespace", "template", "this", "typename", "operator", "_Bool", "restrict", "inline"}
    # names the generated code defines as macros around emitted expressions
    macros = set()
    for q2 in ("CodegenCtx._generate_end_implementation", "CodegenCtx._generate_feed_implementation"):
        for n in ast.walk(model.func(q2)):
            if isinstance(n, ast.Constant) and isinstance(n.value, str):
                macros |= set(re.findall(r"#define (\w+)", n.value))
    need |= macros
    rep.check(need <= wl, "C11.o", "C_RESERVED_WORDS", f"reserved-word table covers C and C++ keywords and the stdbool macros ({len(wl)} words)", f"reserved words missing from the table: {sorted(need - wl)}")
    rep.check(model.has(q, "if out_obj.name in C_RESERVED_WORDS:\n    raise IllegalParseTree($$m, out.children[1])"), "C11.o", q, "an output named like a reserved word is refused",
              "`out int for;` / `out int class;` are accepted: the generated struct member is not valid C (or the header not valid C++)")
    rep.check(model.has(q, "for enum_value in out_obj.enum_values:\n    claim_enumerator(f'{out_obj.name.upper()}_{enum_value.upper()}', out)") and
              model.has(q, "claim_enumerator(('YIELD_' if target is self.yield_codes else 'FINISH_') + val, i)") and
              model.has("ParseCtx.parse.claim_enumerator", "if generated_name in generated_enumerators:\n    raise DuplicateDefinitionError($$a, source, generated_name)"),
              "C11.o", q, "every generated enumerator (enum constants as PROG_<OUT>_<VALUE>, result codes) is claimed once",
              "`out enum{a,A} e;`, `out enum{b_c,d} a; out enum{c,d} a_b;` or an enum called yield next to a yieldcode produce the same C enumerator twice")
    # the claimed spelling is the emitted spelling
    emitted = model.has("CodegenCtx._generate_out_enum", "contents.add(f'{self.program_name.upper()}_{out_decl.name.upper()}_{val.upper()},')") if model.has_func("CodegenCtx._generate_out_enum") else False
    rep.check(emitted, "C11.o", "CodegenCtx._generate_out_enum", "enumerators are emitted with the spelling that was claimed", "the emitted enumerator spelling differs from the one checked for collisions")
    rep.rule("C11.p", "string constants are emitted with `?` escaped (no trigraph can form: -Wtrigraphs is part of -Wall)")
    rep.check(model.has("CodegenCtx._escape_string", "if chr(i) in ['\\\\', '\"', '?']:\n    result += '\\\\' + chr(i)"), "C11.p", "CodegenCtx._escape_string", "backslash, quote and question mark are escaped",
              "`s = \"a??/b\";` is emitted verbatim: -Wtrigraphs rejects the source (and with trigraphs enabled the constant changes)")
    rep.rule("C11.n", "constant operands / comparisons that gcc -Wall rejects are refused or neutralised before emission")
    gen = "CodegenCtx._generate_code_for_int_expr"
    from ..dispatch import isinstance_chain
    from ..srcmodel import walk_no_nested
    arms, _ = isinstance_chain(model.func(gen).body, "intexpr")
    aarms, _ = isinstance_chain(model.func("CodegenCtx._generate_action_implementation").body, "action")

    def guarded_raise(stmts, probe):
        """a raise (diagnosed refusal) under a condition that evaluates a constant operand (`is_literal()` / `get_literal_result()`) or inspects operand kinds"""
        for st in stmts:
            for n in ast.walk(st):
                if isinstance(n, ast.If) and re.search(probe, ast.unparse(n.test)) and any(isinstance(x, ast.Raise) for x in ast.walk(n)):
                    return True
        return False

    def where(cls_names, ctor):
        out = []
        for classes, body in arms:
            if set(classes) & set(cls_names):
                out += body
        for c in ctor:
            if model.has_func(c):
                out += model.func(c).body
        return out
    lit = r"is_literal\(\)|get_literal_result\(\)|_constant_value_of\(|shift_count"
    setto = [st for classes, body in aarms if "SetTo" in classes for st in body]
    for what, stmts, probe, example in (
            ("constant divisor", where({"MulIntegerExpr"}, ["MulIntegerExpr.__init__"]), lit, "`x = [x / 0];` -> -Wdiv-by-zero"),
            ("constant shift count", where({"BitShiftIntegerExpr"}, ["BitShiftIntegerExpr.__init__"]), lit, "`x = [x << 40];` -> -Wshift-count-overflow"),
            ("constant fits its destination", setto + where({"LiteralIntegerExpr"}, []), lit + r"|int_width|maxval", "`out int{size 1} x; x = 300;` -> -Woverflow"),
            ("comparison operand kinds", where({"CompareIntegerExpr"}, ["CompareIntegerExpr.__init__"]), r"result_type\(\)|== intexpr\.right|is intexpr\.right",
             "`if x == x`, `(x < 2) > 3`, two different enums -> -Wtautological-compare / -Wbool-compare / -Wenum-compare")):
        ok_n = guarded_raise(stmts, probe)
        if what == "constant fits its destination":
            # delegated to a helper called from the assignment template and from start(): the helper refuses, both call it before rendering
            helper = model.functions.get("CodegenCtx._check_constant_fits")
            ok_n = helper is not None and guarded_raise(helper.body, r"int_signed|bits") and \
                any("self._check_constant_fits(action.value_expr, target)" in ast.unparse(st) for st in setto) and \
                model.has("CodegenCtx._generate_start_implementation", "self._check_constant_fits(out_expr.default_value, out_expr)")
        rep.check(ok_n, "C11.n", gen, f"value-level gcc diagnostics: {what}", f"accepted and emitted unchecked: {example}; the generated source does not compile under -Wall -Werror")
    # F-106 (open): C evaluates a constant sub-expression in the type of its operands (int unless one is wider): `2147483647 + 1` overflows although the folded value fits
    # the 64-bit destination; only the final folded value is range-checked
    sub = where({"SumIntegerExpr", "MulIntegerExpr", "BitShiftIntegerExpr"}, [])
    ok_sub = guarded_raise([st for st in sub], r"_constant_value_of\(intexpr\)|get_literal_result\(\).*(1 << 31|2147483647|INT_MAX)")
    rep.check(ok_sub, "C11.n", gen, "value-level gcc diagnostics: constant sub-expression ranges",
              "accepted and emitted unchecked: `out int{size 8} y; y = [2147483647 + 1];` -> -Woverflow (integer overflow in expression of type int); `s[y] << 40` with a 64-bit index only -> "
              "-Wshift-count-overflow; the generated source does not compile under -Wall -Werror")
    # F-105: constants that have no C spelling - INT64_MIN's digits are not a signed constant, 2^64 and beyond are no constant at all
    clv = "CodegenCtx._convert_literal_value"
    ok_s = model.has(clv, "if not -(1 << 63) <= value < 1 << 64:\n    raise IllegalIntExpr($$m, literal)") and \
        model.has(clv, "if value == -(1 << 63):\n    return '(-9223372036854775807 - 1)'") and model.has(clv, "return str(value) + ('u' if value >= 1 << 63 else '')")
    # ... and every way out of the integer arm spells the value in decimal: C types a hexadecimal / octal constant differently (unsigned int from 2^31 on), which changes the
    # arithmetic around it (seed C14-14). The arm is the block that holds the decimal return; every return in it is the INT64_MIN expression or str(value) [+ suffix]
    fnc = model.func(clv)
    dec = [r for r in ast.walk(fnc) if isinstance(r, ast.Return) and r.value is not None and "str(value)" in ast.unparse(r.value)]
    arm_ok = bool(dec)
    if dec:
        blk = None
        for n in ast.walk(fnc):
            for f_ in ("body", "orelse"):
                b = getattr(n, f_, None)
                if isinstance(b, list) and any(x is dec[0] for x in b):
                    blk = b
        others = [r for st in (blk or []) for r in ast.walk(st) if isinstance(r, ast.Return) and r.value is not None]
        for r in others:
            v = r.value
            decimal = (isinstance(v, ast.Constant) and isinstance(v.value, str)) or ast.unparse(v).startswith("str(value)")
            if not decimal:
                arm_ok = False
                rep.bad("C11.n", clv, f"`{ast.unparse(r)[:70]}`", "an integer constant is emitted in a spelling other than decimal: C gives a hexadecimal / octal constant the first of int, unsigned int, long .. "
                        "that holds it, so constants in [2^31, 2^32) become unsigned int and the arithmetic around them wraps at 32 bits (`[one + 4294967295]` is 0)")
    ok_s = ok_s and arm_ok
    rep.check(ok_s, "C11.n", clv, "value-level gcc diagnostics: every emitted integer constant has a valid C spelling (INT64_MIN as an expression, unsigned suffix from 2^63, refusal beyond 64 bits)",
              "an integer constant is emitted as its decimal digits whatever its value: `-9223372036854775808` is not a valid signed constant (gcc: 'integer constant is so large that it is unsigned') "
              "and constants from 2^64 on are refused by every C compiler")


_run_nop = run


def run(ctx, rep, tier):
    _run_nop(ctx, rep, tier)
    _values_and_names_in_c(ctx, rep, tier)
    from .shared import delegate
    delegate(ctx, rep, tier, "C18", ("C18.r",), "C11.q", "every value of the generation options yields code: range collapsing does not index an empty symbol list (--collapsed-range-length 0)")
    delegate(ctx, rep, tier, "C15", ("C15.g",), "C11.t", "byte tests compare the input with values in 0..255: case folding of a literal is confined to the ASCII letters (a code point "
             "above 0xff in `inval == N` is refused by clang -Wall -Werror; a two-character upper case makes the generator crash)")


# ---------------------------------------------------------------------------------------------------------------- C11.s
def _append_is_sequenced(ctx, rep, tier):
    """C11.s (F-103): the appended value of `s += [expr]` may read the length or the contents of the very buffer it is appended to (`s += [s.len + '0']`, `s += [s[0]]`).
    Emitted as `buf[counter++] = (T)(value)` the read of the counter in the value is unsequenced with the increment: undefined behaviour, refused by gcc -Wall -Werror
    (-Wsequence-point), and in practice a different byte with and without -fstrings-as-u8. The store and the count have to be two statements."""
    rep.rule("C11.s", "an append stores its value at the current length and counts the length in a separate statement (the value may read that length)")
    n = 0
    for cl in ("AppendTo", "AppendCharTo"):
        fp = ctx.emit.enumerate("CodegenCtx._generate_action_implementation", classes={"action": cl})
        for p in fp.paths:
            if p.end and p.end[0] == "raise":
                continue
            evs = events_of(fp.lines(p))
            for i, e in enumerate(evs):
                if e.kind == "WRITE" and e.b == "counter++":
                    n += 1
                    j = i + 1
                    while j < len(evs) and evs[j].kind in ("COUNTER_OF", "RAWVIEW"):
                        j += 1
                    ok = j < len(evs) and evs[j].kind == "APPEND_SPLIT"
                    rep.check(ok, "C11.s", "CodegenCtx._generate_action_implementation", f"{cl}: store, then count",
                              f"{cl}'s template emits `{e.text.strip()[:90]}`: the stored value is evaluated in the same expression that increments the length it may read "
                              "(`s += [s.len]`): unsequenced - gcc -Wall -Werror refuses the file (-Wsequence-point) and the stored byte depends on -fstrings-as-u8")
    rep.check(n >= 2, "C11.s", "CodegenCtx._generate_action_implementation", f"{n} append stores examined", "append stores not found in the templates")


_run_s11 = run


def run(ctx, rep, tier):
    _run_s11(ctx, rep, tier)
    _append_is_sequenced(ctx, rep, tier)


# ---------------------------------------------------------------------------------------------------------------- C11.w
_HOLE = re.compile(r"\[\[(?!\[).*?\]\]")
_GOTO_LABEL = re.compile(r"^(?!case\b|default\b)\w+\s*:$")


def _c_skeleton(text):
    """An emitted line with interpolations, string / character constants and comments replaced by atoms: what is left is the C punctuation the template
    itself contributes."""
    t = _HOLE.sub("H", text)
    t = re.sub(r'"(\\.|[^"\\])*"', "S", t)
    t = re.sub(r"'(\\.|[^'\\])*'", "C", t)
    t = re.sub(r"/\*.*?\*/", "", t)
    t = re.sub(r"//.*$", "", t)
    return t.strip()


def _wf_items(items, probs, in_loop=None):
    """Walk one emission unit: returns (net brace depth, first skeleton line, last skeleton line)."""
    depth, prev, first = 0, None, None
    for it in items:
        if isinstance(it, CallBlock):
            prev = "@@UNIT"          # a nested unit: balanced on its own (checked as its own unit)
            first = first or prev
            continue
        if isinstance(it, LoopBlock):
            heads, tails = [], []
            for body in it.bodies:
                sub = []
                d, h, t = _wf_items(body[1], sub, in_loop=it)
                probs.extend(sub)
                if d != 0:
                    probs.append(f"a body of the loop over {it.iter_src} leaves {d:+d} block(s) open per round")
                heads.append(h)
                tails.append(t)
            # an `else` that opens a round continues the chain the previous round left: some round must open the chain with `if`, every round must end on `}`
            if any(h is not None and re.match(r"^else\b", h) for h in heads):
                if not any(h is not None and re.match(r"^if\b", h) for h in heads):
                    probs.append(f"loop over {it.iter_src}: rounds start with `else` but no round opens the chain with `if`")
                if not all(t is None or t.endswith("}") or t == "@@UNIT" for t in tails):
                    probs.append(f"loop over {it.iter_src}: a round that is continued by `else` does not end on `}}`")
            prev = "@@UNIT"
            first = first or prev
            continue
        for sub in it.text().split("\n"):
            t = _c_skeleton(sub)
            if not t:
                continue
            first = first or t
            if t.startswith("#"):
                continue
            if t.count("(") != t.count(")"):
                probs.append(f"unbalanced parentheses in {sub.strip()!r}")
            if t.count("[") != t.count("]"):
                probs.append(f"unbalanced brackets in {sub.strip()!r}")
            for ch in t:
                if ch == "{":
                    depth += 1
                elif ch == "}":
                    depth -= 1
                    if depth < 0:
                        probs.append(f"{sub.strip()!r} closes a block this unit did not open")
                        depth = 0
            if re.match(r"^else\b", t):
                if prev is None and in_loop is not None:
                    pass        # decided for the loop as a whole (above)
                elif not (prev is not None and (prev.endswith("}") or prev == "@@UNIT")):
                    probs.append(f"{sub.strip()!r} does not follow a closed block (previous line: {prev!r})")
            if t[-1] not in ";{}:,":
                probs.append(f"{sub.strip()!r} is not a complete statement, block opener, label or list element")
            if prev is not None and _GOTO_LABEL.match(prev) and t.startswith("}"):
                probs.append(f"label {prev!r} is the last thing in its block: a label needs a statement behind it before C23 (clang: 'expected statement'; gcc accepts it as an extension only)")
            prev = t
    if prev is not None and _GOTO_LABEL.match(prev) and in_loop is None:
        probs.append(f"label {prev!r} can be the last line its unit emits: whatever closes the enclosing block follows it directly (a label needs a statement behind it before C23)")
    return depth, first, prev


def _emitted_units_are_wellformed(ctx, rep, tier):
    """C11.w: on every emission path of every generator function, what the template itself contributes is block-structured C: braces opened by a unit are
    closed by it (never more closed than opened), parentheses and brackets balance within a line, an `else` follows a closed block, every line is a complete
    statement / opener / label. A brace dropped in one arm of one template (a storage mode x option combination no test compiles) is invalid C for exactly
    the programs that reach that arm."""
    model, E = ctx.model, ctx.emit
    rep.rule("C11.w", "every emission path of every generator function is block-structured C on its own: braces balance per unit and per loop round, parentheses / "
                      "brackets per line, `else` follows a closed block, every line is a complete statement, opener, label or list element")
    gens = [q for q, f in model.functions.items() if q.startswith("CodegenCtx.") and q.count(".") == 1 and
            any(isinstance(n, ast.Call) and isinstance(n.func, ast.Attribute) and n.func.attr == "add" for n in ast.walk(f))]
    n_paths = 0
    for q in sorted(gens):
        variants = [dict(classes={"action": cl}) for cl in model.concrete_subclasses("Action") if cl != "Action"] if q.endswith("._generate_action_implementation") else [{}]
        for kw in variants:
            fp = E.enumerate(q, **kw)
            bad = {}
            for p in fp.paths:
                if p.end and p.end[0] == "raise":
                    continue
                n_paths += 1
                probs = []
                d, _, _ = _wf_items(fp.lines(p), probs)
                if d != 0:
                    probs.append(f"the unit leaves {d:+d} block(s) open")
                for pr in set(probs):
                    bad.setdefault(pr, p)
            tag = q + (f"[{kw['classes']['action']}]" if kw else "")
            for pr, p in sorted(bad.items()):
                rep.bad("C11.w", q, f"{tag}: {pr}"[:220], f"{pr} (first on the path with {', '.join(f'{k}={v}' for k, v in sorted(p.valuation().items()) if isinstance(v, bool))[:300]})",
                        extra={"lines": [i.text() for i in fp.lines(p)][:60]})
            if not bad:
                rep.ok("C11.w", q, f"{tag}: {len(fp.paths)} emission path(s)")
    rep.count("wellformed:emission_paths", n_paths)
    if n_paths < 600:
        raise AnalysisError(f"C11.w: only {n_paths} emission paths enumerated (floor 600)")
    rep.floor("C11.w", 20)


_run_w11 = run


def run(ctx, rep, tier):
    _run_w11(ctx, rep, tier)
    _emitted_units_are_wellformed(ctx, rep, tier)


_run_r6 = run


def run(ctx, rep, tier):
    _run_r6(ctx, rep, tier)
    from .shared import delegate
    delegate(ctx, rep, tier, "C06", ("C06.n",), "C11.x", "every constant stored into the state member fits its declared type (gcc -Werror=overflow otherwise): the member is sized for the largest number any template stores")
