"""C10 - result codes and the start pointer follow the documented protocol (DESIGN.md section 3, C10)."""
import ast
from ..core import AnalysisError
from ..tmpl import transition_body_paths, flatten_items
from ..cevents import events_of
from ..emit import Line, LoopBlock, CallBlock
from ..srcmodel import is_flag_test, walk_no_nested
from .tbrows import check_row

EXPLANATION = (
    "Static template analysis. Every line of C a generated parser can contain is a template inside CodegenCtx; the "
    "emission-path enumerator forks on each boolean atom of the generator's branch conditions and yields every "
    "sequence of lines _generate_transition_body / _generate_switch_body / _generate_feed_implementation / "
    "_generate_end_* can emit. C10.a classifies each transition-body path into an epilogue class (consume / "
    "fallthrough / immediate DONE / end-of-input / terminating) and checks its event sequence against the protocol "
    "row: exactly one advance, OK only from the compare-with-end, reload through the same pointer, DONE without "
    "advancing, fallthrough never touching the pointer, state stored before any action. C10.b: fail state and default "
    "arms only return FAIL. C10.c: the strict-done flag is consulted only where it degrades immediate DONE to the "
    "consume row. C10.d: a state's tail returns DONE iff accepting. Holds for all programs/options because it is a fact "
    "about the generator.")
NOT_DECIDED = ("offsets at which DFA-level constructs (yield proxies, tokenizer loops) yield; whether a non-accepting "
               "state without Else exists (C10.d tail OK) - a DFA fact, reported as assumption")
ENGINES = ["E1 source model", "E5 emission-path enumerator", "E6 C-line events"]

FN = "CodegenCtx._generate_transition_body"


def run(ctx, rep, tier):
    rep.rule("C10.a", "every emission path of the transition body satisfies its epilogue-class row")
    tbs = transition_body_paths(ctx)
    rep.count("emission_paths:_generate_transition_body", len(tbs))
    rows = {}
    for tb in tbs:
        row, probs = check_row(tb)
        for r in row.split("/"):
            rows[r] = rows.get(r, 0) + 1
        key = f"{row}: {tb.valuation_str()}"
        if probs:
            rep.bad("C10.a", FN, key, "; ".join(probs), extra={"lines": tb.lines()})
        else:
            rep.ok("C10.a", FN, key, detail={"events": [repr(e) for e in tb.events]})
    rep.analysed["rows"] = rows
    for need in ("consume", "fallthrough", "immediate_done", "end_nonfall", "terminating"):
        if rows.get(need, 0) == 0:
            raise AnalysisError(f"C10.a: no emission path falls in row {need!r} - template restructured, re-triage")
    rep.floor("C10.a", 40)

    # ---------------------------------------------------------------- C10.b fail is absorbing
    rep.rule("C10.b", "the generic-fail case and the default arm of feed and end emit only `return FAIL`; "
                      "no return precedes the state switch (a return there is reachable in the FAIL state)")
    for fn in ("CodegenCtx._generate_feed_implementation", "CodegenCtx._generate_end_implementation"):
        fp = ctx.emit.enumerate(fn)
        rep.count("emission_paths:" + fn.split(".")[1], len(fp.paths))
        for p in fp.paths:
            items = fp.lines(p)
            evs = events_of(items)
            pk = ", ".join(f"{k}={'T' if v else 'F'}" for k, v in sorted(p.valuation().items()))
            i_sw = next((i for i, e in enumerate(evs) if e.kind == "SWITCH"), None)
            if i_sw is None:
                raise AnalysisError(f"{fn}: no `switch (state->state)` emitted")
            pre_rets = [e for e in evs[:i_sw] if e.kind == "RET"]
            has_fail_state = p.valuation().get("self.generic_fail_state in self.dfa.states")
            entry = [e for e in evs[:i_sw] if e.kind == "RET_ENTRY_EMPTY"]
            if entry:
                rep.check(all("self.generic_fail_state" in (e.a or "") for e in entry) and has_fail_state is True, "C10.b", fn, f"entry test answers FAIL in the fail state, OK otherwise [{pk}]",
                          f"the empty-chunk entry test compares the state with {[e.a for e in entry]}, not with the fail state")
            if pre_rets and has_fail_state is False:
                pre_rets = []        # no fail state in this machine: FAIL can never have been returned
            rep.check(not pre_rets, "C10.b", fn, f"return-before-switch [{pk}]",
                      "a return is emitted before the state switch: after FAIL, this call does not return FAIL "
                      f"({[e.text.strip() for e in pre_rets]})")
            dflt = [i for i, e in enumerate(evs) if e.kind == "DEFAULT"]
            ok = len(dflt) == 1 and evs[dflt[0] + 1].kind == "RET" and evs[dflt[0] + 1].a == "FAIL"
            rep.check(ok, "C10.b", fn, f"default-arm [{pk}]", "default: arm does not return FAIL")
            loops = [e for e in evs if e.kind == "LOOP" and "self.dfa.states" in e.a]
            if len(loops) != 1:
                raise AnalysisError(f"{fn}: expected one loop over self.dfa.states")
            saw_fail_arm = False
            for delta, sub, endk, _ in loops[0].b.bodies:
                is_fail = None
                for a, v in delta.items():
                    if "generic_fail_state" in a:
                        # atom is `state is not self.generic_fail_state`
                        is_fail = (not v) if "is not" in a else v
                if is_fail is None:
                    raise AnalysisError(f"{fn}: case loop no longer distinguishes the generic fail state")
                sevs = [e for e in events_of(sub) if e.kind not in ("CASE", "LABEL", "COMMENT")]
                if is_fail:
                    saw_fail_arm = True
                    ok = len(sevs) == 1 and sevs[0].kind == "RET" and sevs[0].a == "FAIL"
                    rep.check(ok, "C10.b", fn, f"fail-state-arm [{pk}]",
                              f"the fail state's case emits {[e.text.strip() for e in sevs]}, expected only return FAIL")
                else:
                    want = "_generate_switch_body" if "feed" in fn else "_generate_end_switch_body"
                    ok = len(sevs) == 1 and sevs[0].kind == "CALLBLOCK" and sevs[0].a == want
                    rep.check(ok, "C10.b", fn, f"normal-state-arm [{pk}]",
                              f"a normal state's case body is {[e.text.strip() for e in sevs]}, expected the {want} block")
            if not saw_fail_arm:
                raise AnalysisError(f"{fn}: no fail-state arm found")
    rep.floor("C10.b", 10)

    # ---------------------------------------------------------------- C10.c strict-done only postpones
    rep.rule("C10.c", "STRICT_DONE_TOKEN_GENERATION is consulted only by the immediate-done test and the direct-jump "
                      "predicate; with it on, a transition into an accepting state follows the consume row")
    users = set()
    for q, f in ctx.model.functions.items():
        for n in walk_no_nested(f):
            if is_flag_test(n) == "STRICT_DONE_TOKEN_GENERATION":
                users.add(q)
    allowed = {"CodegenCtx._generate_transition_body", "CodegenCtx._transition_will_directly_jump"}
    for u in sorted(users):
        rep.check(u in allowed, "C10.c", u, "reads STRICT_DONE_TOKEN_GENERATION",
                  "strict-done flag consulted outside the immediate-done / direct-jump predicates: it may now change more than "
                  "the call in which DONE is reported")
    if not users & allowed:
        raise AnalysisError("C10.c: strict-done flag no longer read by the transition body")
    n = 0
    for tb in tbs:
        if tb.get("STRICT") is True and tb.get("ACCEPT") is True and tb.get("FALL") is False and tb.get("FROM_END") is False \
                and tb.get("INSTATES") is True:
            n += 1
            rep.check(tb.row() == "consume", "C10.c", FN, "strict: " + tb.valuation_str(),
                      "with strict-done on, a consuming transition into an accepting state must behave as a plain consume")
    if n == 0:
        raise AnalysisError("C10.c: no strict-done consuming path found")

    # ---------------------------------------------------------------- C10.d tails
    rep.rule("C10.d", "_generate_switch_body ends with return DONE iff the state is accepting, else return OK")
    fp = ctx.emit.enumerate("CodegenCtx._generate_switch_body")
    rep.count("emission_paths:_generate_switch_body", len(fp.paths))
    m = 0
    for p in fp.paths:
        if p.end and p.end[0] == "return" and not fp.lines(p):
            continue  # delegated to the condition-point body
        evs = [e for e in events_of(fp.lines(p)) if e.kind != "COMMENT"]
        acc = None
        for a, v in p.atoms.items():
            if a == "state in self.dfa.accepting_states":
                acc = v
        if acc is None:
            raise AnalysisError("C10.d: _generate_switch_body no longer tests acceptance of the state")
        last = evs[-1] if evs else None
        want = "DONE" if acc else "OK"
        m += 1
        rep.check(last is not None and last.kind == "RET" and last.a == want and sum(1 for e in evs if e.kind == "RET") == 1,
                  "C10.d", "CodegenCtx._generate_switch_body", f"tail accepting={acc}",
                  f"state tail must be a single `return {want}`", detail={"tail": last.text.strip() if last else None})
    if m < 2:
        raise AnalysisError("C10.d: fewer than two tail paths")
    rep.assume("C10.d: the non-accepting tail `return OK` is reached only by a state with no applicable transition and no "
               "Else; whether such states exist is a DFA-level fact not decided here")

    rep.rule("C10.f", "yield resume contract: feed's entry test `start == end -> OK` is emitted whenever some transition carries an action "
                      "that may return early (a yield returns after advancing; re-invocation may start at the chunk end)")
    from .c02 import check_needs_end_check
    check_needs_end_check(ctx, rep, "C10.f")

    # condition point fallback returns FAIL
    rep.rule("C10.e", "a condition point whose conditions all fail returns FAIL (never OK/DONE)")
    fp = ctx.emit.enumerate("CodegenCtx._generate_condition_point_body")
    for p in fp.paths:
        if p.end and p.end[0] == "raise":
            continue
        evs = [e for e in events_of(fp.lines(p)) if e.kind != "COMMENT"]
        last = evs[-1] if evs else None
        rep.check(last is not None and last.kind == "RET" and last.a == "FAIL", "C10.e",
                  "CodegenCtx._generate_condition_point_body", "fallback", "condition point fallback is not return FAIL")


def _shared(ctx, rep, tier):
    from .shared import delegate
    delegate(ctx, rep, tier, "C05", ("C05.d",), "C10.g", "OK is only returned with the whole chunk consumed: a transition whose actions may (not must) leave keeps its state store and continuation "
             "- override modes declared by actions agree with their templates", where="ConditionalAction.get_target_override_mode")


_run0 = run


def run(ctx, rep, tier):
    _run0(ctx, rep, tier)
    _shared(ctx, rep, tier)


_run_q01 = run


def run(ctx, rep, tier):
    _run_q01(ctx, rep, tier)
    from .shared import delegate
    delegate(ctx, rep, tier, "C17", ("C17.h",), "C10.k", "a statement that starts with a condition point is always entered through a helper state (no symbol-less copies of conditional transitions: such a state only returns OK)")
    delegate(ctx, rep, tier, "C01", ("C01.r",), "C10.j", "the statements after a construct (a finish code in particular) are chained onto every path that leaves it")
    delegate(ctx, rep, tier, "C01", ("C01.q",), "C10.h", "the non-accepting tail `return OK` of a state's switch is not reachable mid-chunk through a loop end state without Else")


_run_l05 = run


def run(ctx, rep, tier):
    _run_l05(ctx, rep, tier)
    from .shared import delegate
    delegate(ctx, rep, tier, "C05", ("C05.l",), "C10.i", "one advance per consumed byte also when a yield shares a transition with other actions (optimiser guard)")
