"""C10 - result codes and the start pointer follow the documented protocol (DESIGN.md section 3, C10)."""
import ast
from ..core import AnalysisError
from ..tmpl import transition_body_paths, flatten_items
from ..cevents import events_of
from ..emit import Line, LoopBlock, CallBlock
from ..srcmodel import is_flag_test, walk_no_nested
from .tbrows import check_row

EXPLANATION = (
    "Static template analysis. Every line of C a generated parser can contain is a template inside CodegenCtx; the "
    "emission-path enumerator forks on each boolean atom of the generator's branch conditions and yields every "
    "sequence of lines _generate_transition_body / _generate_switch_body / _generate_feed_implementation / "
    "_generate_end_* can emit. C10.a classifies each transition-body path into an epilogue class (consume / "
    "fallthrough / immediate DONE / end-of-input / terminating) and checks its event sequence against the protocol "
    "row: exactly one advance, OK only from the compare-with-end, reload through the same pointer, DONE without "
    "advancing, fallthrough never touching the pointer, state stored before any action. C10.b: fail state and default "
    "arms only return FAIL. C10.c: the strict-done flag is consulted only where it degrades immediate DONE to the "
    "consume row. C10.d: a state's tail returns DONE iff accepting. Holds for all programs/options because it is a fact "
    "about the generator.")
NOT_DECIDED = ("offsets at which DFA-level constructs (yield proxies, tokenizer loops) yield; whether a non-accepting "
               "state without Else exists (C10.d tail OK) - a DFA fact, reported as assumption")
ENGINES = ["E1 source model", "E5 emission-path enumerator", "E6 C-line events"]

FN = "CodegenCtx._generate_transition_body"


def run(ctx, rep, tier):
    rep.rule("C10.a", "every emission path of the transition body satisfies its epilogue-class row")
    tbs = transition_body_paths(ctx)
    rep.count("emission_paths:_generate_transition_body", len(tbs))
    rows = {}
    for tb in tbs:
        row, probs = check_row(tb)
        for r in row.split("/"):
            rows[r] = rows.get(r, 0) + 1
        key = f"{row}: {tb.valuation_str()}"
        if probs:
            rep.bad("C10.a", FN, key, "; ".join(probs), extra={"lines": tb.lines()})
        else:
            rep.ok("C10.a", FN, key, detail={"events": [repr(e) for e in tb.events]})
    rep.analysed["rows"] = rows
    for need in ("consume", "fallthrough", "immediate_done", "end_nonfall", "terminating"):
        if rows.get(need, 0) == 0:
            raise AnalysisError(f"C10.a: no emission path falls in row {need!r} - template restructured, re-triage")
    rep.floor("C10.a", 40)

    # ---------------------------------------------------------------- C10.b fail is absorbing
    rep.rule("C10.b", "the generic-fail case and the default arm of feed and end emit only `return FAIL`; "
                      "no return precedes the state switch (a return there is reachable in the FAIL state)")
    for fn in ("CodegenCtx._generate_feed_implementation", "CodegenCtx._generate_end_implementation"):
        fp = ctx.emit.enumerate(fn)
        rep.count("emission_paths:" + fn.split(".")[1], len(fp.paths))
        for p in fp.paths:
            items = fp.lines(p)
            evs = events_of(items)
            pk = ", ".join(f"{k}={'T' if v else 'F'}" for k, v in sorted(p.valuation().items()))
            i_sw = next((i for i, e in enumerate(evs) if e.kind == "SWITCH"), None)
            if i_sw is None:
                raise AnalysisError(f"{fn}: no `switch (state->state)` emitted")
            pre_rets = [e for e in evs[:i_sw] if e.kind == "RET"]
            has_fail_state = p.valuation().get("self.generic_fail_state in self.dfa.states")
            entry = [e for e in evs[:i_sw] if e.kind == "RET_ENTRY_EMPTY"]
            if entry:
                # the number the machine rests at after FAIL: the generic fail state's index or, in a machine without one, a number no state carries
                # (end() stores it before answering FAIL - C10.m; both default arms answer FAIL - below)
                want_cmp = (lambda a: "self.generic_fail_state" in a) if has_fail_state is True else (lambda a: a.replace("[", "").replace("]", "") == "len(self.dfa.states)")
                rep.check(has_fail_state is not None and all(want_cmp(e.a or "") for e in entry), "C10.b", fn, f"entry test answers FAIL in the fail state, OK otherwise [{pk}]",
                          f"the empty-chunk entry test compares the state with {[e.a for e in entry]}, not with the fail state")
            rep.check(not pre_rets, "C10.b", fn, f"return-before-switch [{pk}]",
                      "a return is emitted before the state switch: after FAIL, this call does not return FAIL "
                      f"({[e.text.strip() for e in pre_rets]})")
            dflt = [i for i, e in enumerate(evs) if e.kind == "DEFAULT"]
            ok = len(dflt) == 1 and evs[dflt[0] + 1].kind == "RET" and evs[dflt[0] + 1].a == "FAIL"
            rep.check(ok, "C10.b", fn, f"default-arm [{pk}]", "default: arm does not return FAIL")
            loops = [e for e in evs if e.kind == "LOOP" and "self.dfa.states" in e.a]
            if len(loops) != 1:
                raise AnalysisError(f"{fn}: expected one loop over self.dfa.states")
            saw_fail_arm = False
            for delta, sub, endk, _ in loops[0].b.bodies:
                is_fail = None
                for a, v in delta.items():
                    if "generic_fail_state" in a:
                        # atom is `state is not self.generic_fail_state`
                        is_fail = (not v) if "is not" in a else v
                if is_fail is None:
                    raise AnalysisError(f"{fn}: case loop no longer distinguishes the generic fail state")
                sevs = [e for e in events_of(sub) if e.kind not in ("CASE", "LABEL", "COMMENT")]
                if is_fail:
                    saw_fail_arm = True
                    ok = len(sevs) == 1 and sevs[0].kind == "RET" and sevs[0].a == "FAIL"
                    rep.check(ok, "C10.b", fn, f"fail-state-arm [{pk}]",
                              f"the fail state's case emits {[e.text.strip() for e in sevs]}, expected only return FAIL")
                else:
                    want = "_generate_switch_body" if "feed" in fn else "_generate_end_switch_body"
                    ok = len(sevs) == 1 and sevs[0].kind == "CALLBLOCK" and sevs[0].a == want
                    rep.check(ok, "C10.b", fn, f"normal-state-arm [{pk}]",
                              f"a normal state's case body is {[e.text.strip() for e in sevs]}, expected the {want} block")
            if not saw_fail_arm:
                raise AnalysisError(f"{fn}: no fail-state arm found")
    rep.floor("C10.b", 10)

    # ---------------------------------------------------------------- C10.c strict-done only postpones
    rep.rule("C10.c", "STRICT_DONE_TOKEN_GENERATION is consulted only by the immediate-done test and the direct-jump "
                      "predicate; with it on, a transition into an accepting state follows the consume row")
    users = set()
    for q, f in ctx.model.functions.items():
        for n in walk_no_nested(f):
            if is_flag_test(n) == "STRICT_DONE_TOKEN_GENERATION":
                users.add(q)
    allowed = {"CodegenCtx._generate_transition_body", "CodegenCtx._transition_will_directly_jump"}
    # F-109: a helper that answers "did the transition body advance the input before the actions?" re-states the body's own two definitions; it may read the flag
    # exactly as long as it IS that re-statement (sibling agreement, checked here)
    aba = ctx.model.functions.get("CodegenCtx._advances_before_actions")
    if aba is not None:
        tbf = ctx.model.func("CodegenCtx._generate_transition_body")
        def rhs(fn, name):
            return next((ast.unparse(n.value) for n in ast.walk(fn) if isinstance(n, ast.Assign) and len(n.targets) == 1 and isinstance(n.targets[0], ast.Name) and n.targets[0].id == name), None)
        ret = next((ast.unparse(n.value) for n in ast.walk(aba) if isinstance(n, ast.Return) and n.value is not None), None)
        same = rhs(aba, "immediate_done") is not None and rhs(aba, "immediate_done") == rhs(tbf, "immediate_done") and rhs(tbf, "needs_early_advance") is not None and \
            ret == f"{rhs(tbf, 'needs_early_advance')} and (not immediate_done)" and \
            ctx.model.has("CodegenCtx._generate_transition_body", "if needs_early_advance and (not from_end) and (not transition.is_fallthrough) and (not immediate_done):\n    ...")
        rep.check(same, "C10.c", "CodegenCtx._advances_before_actions", "re-states the transition body's early-advance condition (same immediate-done test, same early-return test)",
                  "the helper that tells an action template whether the input was already advanced no longer agrees with the transition body's own condition: a byte is skipped or consumed twice "
                  "when an append-character overflows on a transition that also yields")
        if same:
            allowed.add("CodegenCtx._advances_before_actions")
    for u in sorted(users):
        rep.check(u in allowed, "C10.c", u, "reads STRICT_DONE_TOKEN_GENERATION",
                  "strict-done flag consulted outside the immediate-done / direct-jump predicates: it may now change more than "
                  "the call in which DONE is reported")
    if not users & allowed:
        raise AnalysisError("C10.c: strict-done flag no longer read by the transition body")
    n = 0
    for tb in tbs:
        if tb.get("STRICT") is True and tb.get("ACCEPT") is True and tb.get("FALL") is False and tb.get("FROM_END") is False \
                and tb.get("INSTATES") is True:
            n += 1
            rep.check(tb.row() == "consume", "C10.c", FN, "strict: " + tb.valuation_str(),
                      "with strict-done on, a consuming transition into an accepting state must behave as a plain consume")
    if n == 0:
        raise AnalysisError("C10.c: no strict-done consuming path found")

    # ---------------------------------------------------------------- C10.d tails
    rep.rule("C10.d", "_generate_switch_body ends with return DONE iff the state is accepting, else return OK")
    fp = ctx.emit.enumerate("CodegenCtx._generate_switch_body")
    rep.count("emission_paths:_generate_switch_body", len(fp.paths))
    m = 0
    for p in fp.paths:
        if p.end and p.end[0] == "return" and not fp.lines(p):
            continue  # delegated to the condition-point body
        evs = [e for e in events_of(fp.lines(p)) if e.kind != "COMMENT"]
        acc = None
        for a, v in p.atoms.items():
            if a == "state in self.dfa.accepting_states":
                acc = v
        if acc is None:
            raise AnalysisError("C10.d: _generate_switch_body no longer tests acceptance of the state")
        last = evs[-1] if evs else None
        want = "DONE" if acc else "OK"
        m += 1
        rep.check(last is not None and last.kind == "RET" and last.a == want and sum(1 for e in evs if e.kind == "RET") == 1,
                  "C10.d", "CodegenCtx._generate_switch_body", f"tail accepting={acc}",
                  f"state tail must be a single `return {want}`", detail={"tail": last.text.strip() if last else None})
    if m < 2:
        raise AnalysisError("C10.d: fewer than two tail paths")
    rep.assume("C10.d: the non-accepting tail `return OK` is reached only by a state with no applicable transition and no "
               "Else; whether such states exist is a DFA-level fact not decided here")

    rep.rule("C10.f", "yield resume contract: feed's entry test `start == end -> OK` is emitted whenever some transition carries an action "
                      "that may return early (a yield returns after advancing; re-invocation may start at the chunk end)")
    from .c02 import check_needs_end_check
    check_needs_end_check(ctx, rep, "C10.f")

    # condition point fallback returns FAIL
    rep.rule("C10.e", "a condition point whose conditions all fail returns FAIL (never OK/DONE)")
    fp = ctx.emit.enumerate("CodegenCtx._generate_condition_point_body")
    for p in fp.paths:
        if p.end and p.end[0] == "raise":
            continue
        evs = [e for e in events_of(fp.lines(p)) if e.kind != "COMMENT"]
        last = evs[-1] if evs else None
        rep.check(last is not None and last.kind == "RET" and last.a == "FAIL", "C10.e",
                  "CodegenCtx._generate_condition_point_body", "fallback", "condition point fallback is not return FAIL")


def _shared(ctx, rep, tier):
    from .shared import delegate
    delegate(ctx, rep, tier, "C05", ("C05.d",), "C10.g", "OK is only returned with the whole chunk consumed: a transition whose actions may (not must) leave keeps its state store and continuation "
             "- override modes declared by actions agree with their templates", where="ConditionalAction.get_target_override_mode")


_run0 = run


def run(ctx, rep, tier):
    _run0(ctx, rep, tier)
    _shared(ctx, rep, tier)


_run_q01 = run


def run(ctx, rep, tier):
    _run_q01(ctx, rep, tier)
    from .shared import delegate
    delegate(ctx, rep, tier, "C17", ("C17.h",), "C10.k", "a statement that starts with a condition point is always entered through a helper state (no symbol-less copies of conditional transitions: such a state only returns OK)")
    delegate(ctx, rep, tier, "C01", ("C01.r",), "C10.j", "the statements after a construct (a finish code in particular) are chained onto every path that leaves it")
    delegate(ctx, rep, tier, "C01", ("C01.q",), "C10.h", "the non-accepting tail `return OK` of a state's switch is not reachable mid-chunk through a loop end state without Else")


_run_l05 = run


def run(ctx, rep, tier):
    _run_l05(ctx, rep, tier)
    from .shared import delegate
    delegate(ctx, rep, tier, "C05", ("C05.l",), "C10.i", "one advance per consumed byte also when a yield shares a transition with other actions (optimiser guard)")


# ---------------------------------------------------------------------------------------------------------------- C10.l
def _finished_stays_finished(ctx, rep, tier):
    """C10.l (F-77): 'the program has finished here' is one predicate with two users. The transition INTO such a state answers DONE at once
    (`immediate_done`) unless strict-done postpones the answer; the postponed answer is given by the state's own case of feed's switch. That case
    must apply the same predicate before it emits the state's transitions: a regex's accepting state carries an explicit error-path Else, which
    otherwise swallows every byte (FAIL) in front of the `return DONE` tail."""
    import ast
    model = ctx.model
    rep.rule("C10.l", "feed's case for a state answers DONE under the predicate the transition into it uses for an immediate DONE (strict-done may only postpone DONE)")
    tb = model.func("CodegenCtx._generate_transition_body")
    sb = model.func("CodegenCtx._generate_switch_body")
    imm = [n for n in ast.walk(tb) if isinstance(n, ast.Assign) and len(n.targets) == 1 and isinstance(n.targets[0], ast.Name) and n.targets[0].id == "immediate_done"]
    if len(imm) != 1 or not (isinstance(imm[0].value, ast.BoolOp) and isinstance(imm[0].value.op, ast.And)):
        rep.bad("C10.l", "CodegenCtx._generate_transition_body", "immediate_done = <conjunction>", "the immediate-done predicate is no longer a single conjunction: re-derive this rule")
        return
    pred = set()
    for c in imm[0].value.values:
        t = ast.unparse(c)
        if "STRICT_DONE" in t:
            continue
        pred.add(t.replace("transition.target", "state"))
    first_loop = next((i for i, s in enumerate(sb.body) if isinstance(s, ast.For)), len(sb.body))
    hits = []
    for i, s in enumerate(sb.body):
        if not isinstance(s, ast.If) or s.orelse:
            continue
        conj = {ast.unparse(c) for c in s.test.values} if isinstance(s.test, ast.BoolOp) and isinstance(s.test.op, ast.And) else {ast.unparse(s.test)}
        if conj != pred:
            continue
        emits = [ast.unparse(x) for x in s.body]
        ok = len(s.body) == 2 and "_DONE;" in emits[0] and emits[0].startswith("result.add(") and emits[1] == "return result.value()" and i < first_loop
        hits.append((s, ok))
    rep.check(len(hits) == 1 and hits[0][1], "C10.l", "CodegenCtx._generate_switch_body", f"early `return DONE` under {sorted(pred)} before the transitions are emitted",
              f"feed's case for a state does not answer DONE under the predicate of the immediate DONE ({sorted(pred)}) before emitting the state's transitions: with "
              "-fstrict-done-token-generation `parser { /b/; }` fed 'b','a' returns OK, FAIL - the error-path Else of the regex's accepting state swallows the byte in front of the "
              "`return DONE` tail (a literal's last state has no transitions and answers DONE)", line=sb.lineno)


_run_l10 = run


def run(ctx, rep, tier):
    _run_l10(ctx, rep, tier)
    _finished_stays_finished(ctx, rep, tier)


# ---------------------------------------------------------------------------------------------------------------- C10.m
def _end_fail_is_final(ctx, rep, tier):
    """C10.m (F-80): every path of end()'s per-state body that answers FAIL stores the fail number first. At end-of-input nothing needs to lead to the
    fail state by itself (a wait sends every mismatch, End included, back to its start; an unfinished `end` pattern rests in a live state): without
    the store a later feed()/end() carries on with a live machine - `wait "ab"` fed x, end(), a, b answered OK FAIL OK DONE."""
    rep.rule("C10.m", "end(): every FAIL answer of a state's body is preceded by a store of the fail number (the one feed's entry test compares with)")
    q = "CodegenCtx._generate_end_switch_body"
    fp = ctx.emit.enumerate(q)
    n = 0
    for p in fp.paths:
        items = fp.lines(p)
        if not items:
            continue
        evs = [e for e in events_of(items) if e.kind != "COMMENT"]
        for i, e in enumerate(evs):
            if e.kind == "RET" and e.a == "FAIL":
                n += 1
                prev = evs[i - 1] if i else None
                nm = (prev.a or "").replace("[", "").replace("]", "") if prev is not None and prev.kind in ("SETSTATE", "SETSTATE_RAW") else None
                ok = nm is not None and ("self.generic_fail_state" in nm or nm == "len(self.dfa.states)")
                pk = ", ".join(f"{k}={'T' if v else 'F'}" for k, v in sorted(p.valuation().items()) if "accepting" in k or "generic_fail" in k)
                rep.check(ok, "C10.m", q, f"FAIL tail stores the fail number [{pk}]",
                          "end() answers FAIL for a state without storing the fail state: the machine stays live and later calls do not answer FAIL "
                          "(`parser { wait \"ab\"; }`: feed(x) end() feed(a) feed(b) = OK FAIL OK DONE)")
    rep.check(n >= 2, "C10.m", q, f"{n} FAIL tails examined", "no FAIL tail found in end()'s per-state body")


_run_l11 = run


def run(ctx, rep, tier):
    _run_l11(ctx, rep, tier)
    _end_fail_is_final(ctx, rep, tier)


# ---------------------------------------------------------------------------------------------------------------- C10.n
def _gone_target_is_not_terminating(ctx, rep, tier):
    """C10.n (F-82): a transition whose own target is not part of the machine is a terminating one only if no emitted action may send the machine to a live
    state. `"a"; loop { break; "x"; } "b";` puts the break on the 'a' transition, whose own target (the dead "x" states) is removed at -O1+: after the break's
    jump to the skip label nothing was emitted - no advance, no end test, no dispatch - and feed() fell into the state's `return OK` mid-chunk."""
    from .tbrows import check_leaves_flag
    rep.rule("C10.n", "a transition with a removed own target still advances and dispatches when one of its emitted actions may leave for another state")
    has, probs = check_leaves_flag(ctx.model)
    q = "CodegenCtx._generate_transition_body"
    rep.check(has, "C10.n", q, "the emitter tracks whether an emitted action may send the machine elsewhere",
              "a transition whose own target was removed as inaccessible is rendered as terminating even when an action (a break in front of dead code, a conditional break in front "
              "of a finish) sends the machine to a live state: feed() returns OK without consuming the chunk (`\"a\"; loop { break; \"x\"; } \"b\";` fed \"ab\" at -O1+)")
    for pr in probs:
        rep.bad("C10.n", q, "meaning of the may-leave flag", pr)
    if has and not probs:
        # the flag is what the continuation tests consult (the rows themselves are C10.a)
        src = ast.unparse(ctx.model.func(q))
        rep.check(src.count("transition.target in self.dfa.states or leaves_for_elsewhere") == 2, "C10.n", q, "both continuations (fall-through, consuming) consult it",
                  "the may-leave flag is not consulted by both the fall-through and the consuming continuation")


_run_l12 = run


def run(ctx, rep, tier):
    _run_l12(ctx, rep, tier)
    _gone_target_is_not_terminating(ctx, rep, tier)


# ---------------------------------------------------------------------------------------------------------------- C10.o
def _yield_rests_in_its_own_state(ctx, rep, tier):
    """C10.o (seed C10-13): the machine rests, behind a yield / finish code, in a state of the interrupt's own - never in the state the program goes on
    in. The emitter answers for the *target* of the interrupting transition (DONE at once for an accepting target, which also skips the early advance;
    the optimiser merges a step into whatever non-proxy state follows), so an interrupt that leads straight into the continuation reports *start on the
    consumed byte and the wrong code. Necessary: the interrupting transition's target is a DFProxyState created unconditionally, given its outgoing step
    unconditionally."""
    from ..srcmodel import walk_no_nested, strip_doc
    model = ctx.model
    q = "InterruptableActionNode.convert"
    fn = model.func(q)
    rep.rule("C10.o", "a yield / finish code leads into a proxy state of its own, created and wired unconditionally (the machine never rests in the continuation's state behind the interrupt)")
    body = strip_doc(fn.body)
    stores = [st for st in walk_no_nested(fn) if isinstance(st, ast.Assign) and len(st.targets) == 1 and isinstance(st.targets[0], ast.Subscript)
              and ast.unparse(st.targets[0].slice) == "DFTransition.Else"]
    ok, why = False, f"{len(stores)} stores of an Else step in {q}"
    if len(stores) == 1 and isinstance(stores[0].value, ast.Name) and any(stores[0] is b for b in body):
        holder, tgt = ast.unparse(stores[0].targets[0].value), stores[0].value.id
        binds = [st for st in walk_no_nested(fn) if isinstance(st, ast.Assign) and any(isinstance(t, ast.Name) and t.id in (tgt, holder) for t in st.targets)]
        top = [st for st in binds if any(st is b for b in body)]
        fresh = all(isinstance(st.value, ast.Call) and ast.unparse(st.value.func) == "DFProxyState" and not st.value.args for st in binds)
        wired = [b for b in body if isinstance(b, ast.Expr) and isinstance(b.value, ast.Call) and ast.unparse(b.value.func) == f"{tgt}.transition"]
        attach = [b for b in body if isinstance(b, ast.Expr) and "attach(self.important_action)" in ast.unparse(b) and ast.unparse(b).startswith(f"{holder}[DFTransition.Else]")]
        ok = len(binds) == 2 and len(top) == 2 and fresh and len(wired) == 1 and len(attach) == 1
        why = (f"the interrupting step of {q} leads to `{tgt}`, bound by {[ast.unparse(b)[:40] for b in binds]} (unconditional: {len(top)}/{len(binds)}), wired unconditionally: {len(wired)}: "
               "behind a yield with nothing deferred the machine rests in the continuation's own state - at -O3 the yield is merged onto the consuming transition, an accepting target is "
               "answered DONE at once without the early advance, and *start is reported on the consumed byte")
    rep.check(ok, "C10.o", q, "interrupt step -> fresh DFProxyState (unconditional) -> deferred-actions step", why)


_run_l13 = run


def run(ctx, rep, tier):
    _run_l13(ctx, rep, tier)
    _yield_rests_in_its_own_state(ctx, rep, tier)
    from .shared import delegate
    delegate(ctx, rep, tier, "C06", ("C06.n",), "C10.p", "the state member can hold every number a template stores, the 'failed' marker included: FAIL is final only if the marker survives the store")
    delegate(ctx, rep, tier, "C02", ("C02.g",), "C10.q", "actions nested in other actions are emitted in the context of the transition that carries them: OK is only returned with the whole chunk consumed")
