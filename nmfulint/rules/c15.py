"""C15 - literals denote exactly the bytes and values they spell (DESIGN.md section 3, C15)."""
import ast, re
from ..core import AnalysisError
from ..srcmodel import walk_no_nested, calls_in, strip_doc, raised_class
from ..evalx import fold_function, FoldError
from ..emit import SStr
from ..dispatch import dispatch_on

EXPLANATION = (
    "Tables and their agreement - the part tests sample on three strings. C15.a: the string-escape decoder is total over "
    "what the STRING terminal admits (`\\` + any character): every escape outside its table is refused with a diagnosed "
    "error, `\\xHH` validates its two hex digits. C15.a': each escape entry has its standard C meaning (fixed oracle: the "
    "property's own list), `\\x` slices exactly two characters and uses base 16. C15.b: the character-constant table "
    "agrees with the string table on every shared escape. C15.c: one byte encoding (latin-1) wherever a literal becomes "
    "bytes; emitted C literals escape `\\` and `\"` and spell non-printables with a self-delimiting escape. C15.d: the "
    "integer decoder pairs prefix and base (0x/16, 0b/2, else 10), strips exactly the prefix, and negates on a leading "
    "'-'. C15.e: binary strings decode hex pairs in base 16 and both call sites turn a malformed literal into a parse "
    "error. C15.f: byte tests compare ord() of the transition symbol. C15.g: the case-folding function, folded over all "
    "256 one-character inputs, maps each ASCII letter to {itself, its other case} and every other byte to itself.")
NOT_DECIDED = "end-to-end bytes through DFA construction (that a DirectMatch on a decoded string matches exactly those bytes is C01/C06 territory)"
ENGINES = ["E1 source model", "E2 grammar model", "E4 finite-domain constant folding (case table only)", "E5 emission paths"]

C_ESC = {"n": 10, "r": 13, "t": 9, "b": 8, "0": 0, '"': 34, "\\": 92}


def dict_literals(fn):
    return [n for n in walk_no_nested(fn) if isinstance(n, ast.Dict)]


def run(ctx, rep, tier):
    model, g = ctx.model, ctx.grammar

    # ------------------------------------------------------------------ C15.a / a'
    rep.rule("C15.a", "string escapes: total over `\\` + any character (unknown -> diagnosed error), \\xHH validated")
    rep.rule("C15.a'", "each escape entry has its C meaning; \\x decodes exactly two base-16 digits")
    rx = g.terminal_regex("STRING")
    rep.check(rx == r'"(?:[^"\\]|\\.)*"', "C15.a", "grammar:STRING", "admits backslash + any character", f"STRING terminal is now {rx!r}: re-derive the escape domain")
    cs = model.func("ParseCtx._convert_string")
    tables = [d for d in dict_literals(cs) if all(isinstance(k, ast.Constant) and isinstance(k.value, str) and len(k.value) == 1 for k in d.keys)]
    if len(tables) != 1:
        raise AnalysisError("_convert_string: escape table not found")
    tbl = {k.value: v for k, v in zip(tables[0].keys, tables[0].values)}
    for k, want in C_ESC.items():
        vn = tbl.get(k)
        got = ord(vn.value) if vn is not None and isinstance(vn, ast.Constant) and isinstance(vn.value, str) and len(vn.value) == 1 else None
        rep.check(got == want, "C15.a'", "ParseCtx._convert_string", f"\\{k} = 0x{want:02x}", f"escape \\{k} decodes to {got!r}, C says {want}")
    for k in tbl:
        rep.check(k in C_ESC, "C15.a'", "ParseCtx._convert_string", f"extra escape \\{k}", f"escape \\{k} is not among the documented escapes")
    # subscript must be guarded: membership test on the same key dominating, or try/except KeyError
    sub = [n for n in walk_no_nested(cs) if isinstance(n, ast.Subscript) and n.value is tables[0]]
    guarded = False
    if sub:
        key_src = ast.unparse(sub[0].slice)
        for n in walk_no_nested(cs):
            if isinstance(n, ast.If):
                t = ast.unparse(n.test)
                if key_src in t and ("not in" in t) and any(isinstance(x, ast.Raise) and model.is_subclass(raised_class(x) or "", "NMFUError") for x in n.body):
                    guarded = True
            if isinstance(n, ast.Try) and any(h.type is not None and "KeyError" in ast.unparse(h.type) and any(isinstance(x, ast.Raise) and model.is_subclass(raised_class(x) or "", "NMFUError")
                                              for x in ast.walk(h)) for h in n.handlers) and sub[0] in ast.walk(ast.Module(body=n.body, type_ignores=[])):
                guarded = True
        # the membership test must cover exactly the table's keys
        for n in walk_no_nested(cs):
            if isinstance(n, ast.If) and key_src in ast.unparse(n.test) and "not in" in ast.unparse(n.test):
                cmp_ = n.test
                if isinstance(cmp_, ast.Compare) and isinstance(cmp_.comparators[0], ast.Constant) and isinstance(cmp_.comparators[0].value, str):
                    dom = set(cmp_.comparators[0].value)
                    rep.check(dom == set(tbl), "C15.a", "ParseCtx._convert_string", "guard domain = table keys", f"guard admits {sorted(dom)} but the table has {sorted(tbl)}")
    rep.check(guarded, "C15.a", "ParseCtx._convert_string", "unknown escape is refused",
              "the escape table is subscripted with any character the lexer admits after `\\`: an unknown escape (\"\\q\") dies with KeyError")
    for r in [n for n in walk_no_nested(cs) if isinstance(n, ast.Raise)]:
        rep.check(model.is_subclass(raised_class(r) or "", "NMFUError"), "C15.a", "ParseCtx._convert_string", f"raise {raised_class(r)}",
                  f"_convert_string raises {raised_class(r)}, not a diagnosed NMFUError", line=r.lineno)
    # hex escape
    ints = [c for c in calls_in(cs, nested=False) if isinstance(c.func, ast.Name) and c.func.id == "int"]
    ok_hex = False
    for c in ints:
        base = next((k.value for k in c.keywords if k.arg == "base"), c.args[1] if len(c.args) > 1 else None)
        if base is not None and isinstance(base, ast.Constant) and base.value == 16:
            ok_hex = True
            arg = c.args[0]
            var = arg.id if isinstance(arg, ast.Name) else None
            asg = [n for n in walk_no_nested(cs) if isinstance(n, ast.Assign) and isinstance(n.targets[0], ast.Name) and n.targets[0].id == var]
            sl = asg[0].value if asg else arg
            good = isinstance(sl, ast.Subscript) and isinstance(sl.slice, ast.Slice) and re.fullmatch(r"(\w+) \+ 1", ast.unparse(sl.slice.lower) if sl.slice.lower else "") and \
                re.fullmatch(r"(\w+) \+ 3", ast.unparse(sl.slice.upper) if sl.slice.upper else "")
            rep.check(bool(good), "C15.a'", "ParseCtx._convert_string", "\\x takes exactly the two characters after the x", f"hex escape slices {ast.unparse(sl)}")
            # advance by 3 (x + two digits)
            adv = [n for n in walk_no_nested(cs) if isinstance(n, ast.AugAssign) and isinstance(n.op, ast.Add) and isinstance(n.value, ast.Constant) and n.value.value == 3]
            rep.check(len(adv) == 1, "C15.a'", "ParseCtx._convert_string", "cursor advances past x and two digits", "cursor advance after \\xHH is not 3")
            # validated: a length / hexdigit test raising NMFUError dominates
            val = any(isinstance(n, ast.If) and var and var in ast.unparse(n.test) and ("hexdigits" in ast.unparse(n.test) or "len(" in ast.unparse(n.test)) and
                      any(isinstance(x, ast.Raise) for x in n.body) for n in walk_no_nested(cs)) or \
                any(isinstance(n, ast.Try) and any("ValueError" in ast.unparse(h.type or ast.Constant(0)) for h in n.handlers) and c in ast.walk(ast.Module(body=n.body, type_ignores=[])) for n in walk_no_nested(cs))
            rep.check(val, "C15.a", "ParseCtx._convert_string", "\\xHH digits validated", "`\\xzz` / a truncated `\\x` reaches int(code, 16) unvalidated: ValueError")
    rep.check(ok_hex, "C15.a'", "ParseCtx._convert_string", "hex escape decoded in base 16", "no base-16 decoding of \\x escapes found")
    chrs = [c for c in calls_in(cs, nested=False) if isinstance(c.func, ast.Name) and c.func.id == "chr"]
    rep.check(len(chrs) == 1, "C15.a'", "ParseCtx._convert_string", "decoded code point appended as one character", "chr() use changed")
    # strip quotes
    rep.check(any(isinstance(n, ast.Subscript) and ast.unparse(n) == "escaped_string[1:-1]" for n in walk_no_nested(cs)), "C15.a'", "ParseCtx._convert_string",
              "surrounding quotes stripped", "quote stripping changed")

    # ------------------------------------------------------------------ C15.b sibling table
    rep.rule("C15.b", "character-constant escapes agree with string escapes on every shared key")
    cc = model.func("ParseCtx._convert_char_const")
    ct = [d for d in dict_literals(cc) if all(isinstance(k, ast.Constant) and isinstance(k.value, str) for k in d.keys)]
    if len(ct) != 1:
        raise AnalysisError("_convert_char_const: table not found")
    ctbl = {k.value: (v.value if isinstance(v, ast.Constant) else None) for k, v in zip(ct[0].keys, ct[0].values)}
    passthrough = any(isinstance(c.func, ast.Attribute) and c.func.attr == "get" and c.func.value is ct[0] and len(c.args) == 2 and ast.unparse(c.args[0]) == ast.unparse(c.args[1])
                      for c in calls_in(cc, nested=False))
    for k, want in C_ESC.items():
        if k == '"':
            want_k = 34
        got = ctbl.get(k, k if passthrough else None)
        rep.check(got is not None and ord(got) == want, "C15.b", "ParseCtx._convert_char_const", f"'\\{k}' = 0x{want:02x}",
                  f"character constant '\\{k}' denotes {ord(got) if got else None}, the string escape \\{k} denotes {want}")
    rep.check(ctbl.get("'") == "'", "C15.b", "ParseCtx._convert_char_const", "'\\'' = quote", "escaped quote entry changed")
    # F-92: an escape letter outside the table must be refused, as strings do - the identity fallback made '\a' 97 and '\1' 49
    refusal = any(isinstance(i, ast.If) and re.fullmatch(r"char_const\[2\] not in \w+", ast.unparse(i.test)) and isinstance(i.body[-1], ast.Raise) and
                  model.is_subclass(raised_class(i.body[-1]) or "", "NMFUError") for i in walk_no_nested(cc))
    rep.check(not passthrough and refusal, "C15.b", "ParseCtx._convert_char_const", "an escape letter outside the table is refused (no identity fallback)",
              "unknown escapes in character constants silently denote the escaped letter: '\\a' is 97 (C: 7), '\\f' is 102, '\\1' is 49 - the same spellings are refused in strings")
    # plain form: 3 characters -> middle one
    src = ast.unparse(cc)
    rep.check("len(char_const) == 3" in src and "return char_const[1]" in src and "char_const[2]" in src, "C15.b", "ParseCtx._convert_char_const",
              "plain 'c' -> c ; escaped '\\c' -> table(c)", "character constant slicing changed")

    # ------------------------------------------------------------------ C15.c one encoding, emitted literal escaping
    rep.rule("C15.c", "latin-1 wherever a literal becomes bytes; emitted C literals escape backslash and quote, and spell other non-printables self-delimitingly")
    n_enc = 0
    for q, f in model.functions.items():
        if q.split(".")[0] in ("CodegenCtx", "ParseCtx"):
            for c in calls_in(f, nested=False):
                if isinstance(c.func, ast.Attribute) and c.func.attr == "encode":
                    n_enc += 1
                    codec = str(c.args[0].value).lower().replace("_", "-") if c.args and isinstance(c.args[0], ast.Constant) else "utf-8"
                    rep.check(codec in ("latin-1", "latin1", "iso-8859-1"), "C15.c", q, ast.unparse(c), f"codec {codec!r}: bytes >= 0x80 are stored as two bytes", line=c.lineno)
    if n_enc < 2:
        raise AnalysisError("C15.c: encode sites not found")
    es = model.func("CodegenCtx._escape_string")
    lists = [n for n in walk_no_nested(es) if isinstance(n, ast.Compare) and isinstance(n.ops[0], ast.In) and isinstance(n.comparators[0], (ast.List, ast.Tuple, ast.Constant))]
    escaped = set()
    for c in lists:
        comp = c.comparators[0]
        if isinstance(comp, ast.Constant) and isinstance(comp.value, str):
            escaped |= set(comp.value)
        elif isinstance(comp, (ast.List, ast.Tuple)):
            escaped |= {e.value for e in comp.elts if isinstance(e, ast.Constant)}
    rep.check({"\\", '"'} <= escaped, "C15.c", "CodegenCtx._escape_string", "backslash and double quote are escaped",
              f"_escape_string escapes only {sorted(escaped)}: a literal backslash/quote byte is re-read by the C compiler as an escape / string end")
    fmts = [n.value for n in walk_no_nested(es) if isinstance(n, ast.Constant) and isinstance(n.value, str) and re.search(r"\{:0\d[xo]\}", n.value)]
    ok = len(fmts) == 1 and (re.fullmatch(r"\\\{:03o\}", fmts[0]) is not None or re.search(r'"\s*"', fmts[0]) is not None)
    rep.check(ok, "C15.c", "CodegenCtx._escape_string", "non-printable bytes use a self-delimiting escape",
              f"non-printable bytes are emitted as {fmts}: a C hex escape has no length limit, so \"\\x01ab\" is read as one character")
    # every escape the function can emit has a fixed length: the one-character escapes of C, or exactly three octal digits. A numeric escape of
    # variable length (`\0`, `\1`, `\x..`) takes the digits that follow it in the literal along (seed C06-14: "\0" + "12" is one character)
    SIMPLE = {"\\" + ch for ch in "ntrabfv\\\"'?"} | {"\\"}
    consts = [n.value for n in ast.walk(es) if isinstance(n, ast.Constant) and isinstance(n.value, str) and n.value.startswith("\\")]
    odd = [c for c in consts if c not in SIMPLE and not re.fullmatch(r"\\\{:03o\}", c)]
    rep.check(not odd, "C15.c", "CodegenCtx._escape_string", "every emitted escape has a fixed length (simple escape or three octal digits)",
              f"_escape_string can emit {odd}: a numeric escape without a fixed length swallows the digits that follow it in the literal, while the copy length still counts the real bytes "
              "(`\"00 31 32\"b` as a default stores 0a 00 ..)")
    rng = [n for n in walk_no_nested(es) if isinstance(n, ast.Compare) and len(n.ops) == 2]
    ok = any(ast.unparse(n) == "32 <= i < 127" for n in rng)
    rep.check(ok, "C15.c", "CodegenCtx._escape_string", "printable range 32..126 passes through", "printable range test changed")

    # ------------------------------------------------------------------ C15.d integers
    rep.rule("C15.d", "integer spellings: sign, 0x -> 16, 0b -> 2, otherwise 10; prefix stripped by a slice of its own length")
    ci = model.func("ParseCtx._convert_int")
    pairs = {}
    for n in walk_no_nested(ci):
        if isinstance(n, ast.If) and isinstance(n.test, ast.Compare) and isinstance(n.test.comparators[0], ast.Constant) and isinstance(n.test.comparators[0].value, str):
            lit = n.test.comparators[0].value
            left = ast.unparse(n.test.left)
            if lit in ("0x", "0b", "0o") and n.body and isinstance(n.body[0], ast.Return):
                ret = n.body[0].value
                call = next((c for c in ast.walk(ret) if isinstance(c, ast.Call) and isinstance(c.func, ast.Name) and c.func.id == "int"), None)
                base = None
                if call is not None:
                    b = next((k.value for k in call.keywords if k.arg == "base"), call.args[1] if len(call.args) > 1 else None)
                    base = b.value if isinstance(b, ast.Constant) else None
                    arg = ast.unparse(call.args[0])
                pairs[lit] = (base, left, arg if call is not None else None, "sign *" in ast.unparse(ret) or "* sign" in ast.unparse(ret))
    for lit, base in (("0x", 16), ("0b", 2)):
        got = pairs.get(lit)
        ok = got is not None and got[0] == base and got[1] == f"text[0:{len(lit)}]" and got[2] == f"text[{len(lit)}:]" and got[3]
        rep.check(ok, "C15.d", "ParseCtx._convert_int", f"prefix {lit} -> base {base}", f"prefix {lit} handled as {got}")
    rets = [n for n in walk_no_nested(ci) if isinstance(n, ast.Return)]
    dec = [r for r in rets if re.fullmatch(r"sign \* int\(text\)", ast.unparse(r.value))]
    rep.check(len(dec) == 1, "C15.d", "ParseCtx._convert_int", "decimal otherwise", "decimal branch changed")
    src = ast.unparse(ci)
    rep.check("sign = 1" in src and re.search(r"elif text\[0\] == '-':\s+sign = -1\s+text = text\[1:\]", src) is not None and re.search(r"if text\[0\] == '\+':\s+text = text\[1:\]", src) is not None,
              "C15.d", "ParseCtx._convert_int", "leading + ignored, leading - negates", "sign handling changed")
    rn = g.rules["RADIX_NUMBER"] if "RADIX_NUMBER" in g.rules else None
    rx = g.terminal_regex("RADIX_NUMBER")
    rep.check("0x" in rx and "0b" in rx, "C15.d", "grammar:RADIX_NUMBER", "alternatives hex / bin / decimal", f"RADIX_NUMBER regex {rx!r}")
    callers = {}
    for q, f in model.functions.items():
        for c in calls_in(f, nested=False):
            if isinstance(c.func, ast.Attribute) and c.func.attr == "_convert_int":
                callers.setdefault(q, []).append(ast.unparse(c.args[0]))
    for q, args in callers.items():
        for a in args:
            rep.check(a.endswith(".children[0].value"), "C15.d", q, f"_convert_int({a})", "integer decoder called on something other than a token's text")
    if len(callers) < 3:
        raise AnalysisError("C15.d: callers of _convert_int not found")

    # ------------------------------------------------------------------ C15.e binary strings
    rep.rule("C15.e", "binary strings: hex pairs in base 16; both call sites convert ValueError into IllegalParseTree")
    cb = model.func("ParseCtx._convert_binary_string")
    src = ast.unparse(cb)
    rep.check("base=16" in src and "contents[::2], contents[1::2]" in src and "binary_string[1:-1]" in src, "C15.e",
              "ParseCtx._convert_binary_string", "pairs of hex digits in order", "binary string decoding changed")
    # F-95: a tokeniser, not a filter - only blanks separate, every group is an even number of hex digits, anything else is refused
    tok = model.has("ParseCtx._convert_binary_string", "groups = binary_string[1:-1].split()\nif any((len(group) % 2 != 0 or any((x not in string.hexdigits for x in group)) for group in groups)):\n    raise ValueError($$m)\ncontents = ''.join(groups)")
    rep.check(tok, "C15.e", "ParseCtx._convert_binary_string", "blank-separated groups, each an even number of hex digits; anything else refused",
              "the binary-string decoder filters instead of tokenising: characters that are not hex digits are dropped and the remaining digits paired across the gaps - `\"0x41 0x42\"b` matches 04 10 42")
    n_sites = 0
    for q, f in model.functions.items():
        for c in calls_in(f, nested=False):
            if isinstance(c.func, ast.Attribute) and c.func.attr == "_convert_binary_string":
                n_sites += 1
                n = c
                ok = False
                while n in model.parents:
                    n = model.parents[n]
                    if isinstance(n, ast.Try):
                        ok = any(h.type is not None and "ValueError" in ast.unparse(h.type) and any(isinstance(x, ast.Raise) and raised_class(x) == "IllegalParseTree" for x in ast.walk(h)) for h in n.handlers)
                        break
                    if isinstance(n, ast.FunctionDef):
                        break
                rep.check(ok, "C15.e", q, ast.unparse(c)[:70], "a malformed binary literal escapes as ValueError", line=c.lineno)
    if n_sites < 2:
        raise AnalysisError("C15.e: call sites of _convert_binary_string not found")

    # ------------------------------------------------------------------ C15.f byte tests
    rep.rule("C15.f", "byte tests compare ord() of the transition symbol")
    fp = ctx.emit.enumerate("CodegenCtx._generate_equal_check")
    for p in fp.paths:
        t = p.end[1].text() if p.end and isinstance(p.end[1], SStr) else ""
        rep.check(t.startswith("inval == [[ord(on_value)]]"), "C15.f", "CodegenCtx._generate_equal_check", "inval == ord(symbol)", f"equality test renders as {t!r}")
    fp = ctx.emit.enumerate("CodegenCtx._generate_range_check")
    for p in fp.paths:
        t = p.end[1].text() if p.end and isinstance(p.end[1], SStr) else ""
        rep.check(t.startswith("([[ord(min_cpoint)]] <= inval && inval <= [[ord(max_cpoint)]]"), "C15.f", "CodegenCtx._generate_range_check", "ord(min) <= inval <= ord(max)",
                  f"range test renders as {t!r}")

    # ------------------------------------------------------------------ C15.g case folding
    rep.rule("C15.g", "case-insensitive match: each ASCII letter matches itself and its other case, every other byte only itself (256-entry table folded)")
    cf = model.func("CaseDirectMatch._create_casei_from")
    import string
    bad = []
    try:
        for i in range(256):
            ch = chr(i)
            got = fold_function(cf, [None, ch])
            want = {ch, ch.swapcase()} if ch in string.ascii_letters else {ch}
            if not isinstance(got, list) or set(got) != want:
                bad.append((i, got))
    except FoldError as e:
        raise AnalysisError(f"C15.g: _create_casei_from is outside the foldable table-function subset: {e}")
    rep.check(not bad, "C15.g", "CaseDirectMatch._create_casei_from", "256-entry fold table",
              f"{len(bad)} byte(s) fold wrongly, e.g. 0x{bad[0][0]:02x} -> {bad[0][1]!r}" if bad else "")
    rep.bulk_ok("C15.g", 255)
    for cls in ("DirectMatch", "CaseDirectMatch"):
        conv = ast.unparse(model.func(cls + ".convert"))
        rep.check("for j, character in enumerate(self.match_contents)" in conv or "enumerate(self.match_contents)" in conv, "C15.g", cls + ".convert", "one state per literal character, in order",
                  "literal match no longer walks the literal's characters in order")
    dm = ast.unparse(model.func("DirectMatch.convert"))
    rep.check(model.has("DirectMatch.convert", "DFTransition([character])"), "C15.g", "DirectMatch.convert", "exact character on each step", "DirectMatch transition symbol changed")
    cm = ast.unparse(model.func("CaseDirectMatch.convert"))
    rep.check(model.has("CaseDirectMatch.convert", "DFTransition(self._create_casei_from(character))"), "C15.g", "CaseDirectMatch.convert", "folded set on each step", "CaseDirectMatch transition symbols changed")


# ---------------------------------------------------------------------------------------------------------------- C15.i
CONVERTER_OF = {"TOKEN:CHAR_CONSTANT": {"_convert_char_const"}, "TOKEN:RADIX_NUMBER": {"_convert_int"}, "TOKEN:STRING": {"_convert_string", "_convert_binary_string"},
                # F-108: the suffixed literals are tokens of their own (nothing can be skipped between the string and its suffix); their text reaches the converter
                # without the suffix character, through _without_suffix
                "TOKEN:STRING_CASE": {"_convert_string"}, "TOKEN:STRING_BINARY": {"_convert_binary_string"}}
SUFFIXED = {"TOKEN:STRING_CASE", "TOKEN:STRING_BINARY"}


def _token_conversion_discipline(ctx, rep, tier):
    """C15.i: each literal terminal has one converter that gives it its meaning (C15.a-e decide the converters). A consumer that reads the token's
    text itself - slicing it, indexing it - bypasses the escapes. For every dispatch arm on a label whose first child is a literal terminal, every
    read of that child's `.value` is the argument of the terminal's converter (uses inside f-strings of diagnostics excepted)."""
    import ast
    model, g = ctx.model, ctx.grammar
    consts = ctx.module_str_lists()
    rep.rule("C15.i", "the text of a literal token (char constant, number, string) is only ever read through its converter")
    n = 0
    for q in ("ParseCtx._parse_integer_expr", "ParseCtx._parse_math_expr", "ParseCtx._parse_match_expr", "ParseCtx._parse_assign_stmt", "ParseCtx._parse_out_decl"):
        fn = model.func(q)
        try:
            d = dispatch_on(fn.body, "expr.data", consts)
            arms = [(lab, d.arm_for(lab)) for lab in sorted(d.handled())]
        except AnalysisError:
            arms = []
        for lab, arm in arms:
            try:
                kinds = g.child_at(lab, 0)
            except AnalysisError:
                continue
            conv = set().union(*(CONVERTER_OF.get(k, set()) for k in kinds)) if kinds else set()
            if not conv or not all(k in CONVERTER_OF for k in kinds):
                continue
            # an arm shared by several labels (`expr.data in [..]`, told apart inside) may call the converter of any of them
            for lab2, arm2 in arms:
                if lab2 != lab and arm2 is arm:
                    try:
                        conv |= set().union(*(CONVERTER_OF.get(k, set()) for k in g.child_at(lab2, 0)))
                    except AnalysisError:
                        pass
            aliases = {"expr.children[0]"}
            stripped = set()          # aliases that hold the token without its suffix character

            def alias_kind(v):
                t = ast.unparse(v)
                if t in aliases:
                    return "stripped" if t in stripped else "raw"
                if isinstance(v, ast.Call) and ast.unparse(v.func) == "self._without_suffix" and len(v.args) == 1 and ast.unparse(v.args[0]) in aliases:
                    return "stripped"
                if isinstance(v, ast.IfExp):
                    ks = {alias_kind(v.body), alias_kind(v.orelse)}
                    if None not in ks:
                        return "stripped" if "stripped" in ks else "raw"
                return None
            for st in arm or []:
                for a in ast.walk(st):
                    if isinstance(a, ast.Assign) and len(a.targets) == 1 and isinstance(a.targets[0], ast.Name):
                        k = alias_kind(a.value)
                        if k is not None:
                            aliases.add(a.targets[0].id)
                            if k == "stripped":
                                stripped.add(a.targets[0].id)
            if kinds <= SUFFIXED:
                # every read of the text must come from a suffix-stripped alias (the raw token text ends in the suffix letter)
                for st in arm or []:
                    for node in ast.walk(st):
                        if isinstance(node, ast.Attribute) and node.attr == "value" and ast.unparse(node.value) in aliases and not isinstance(model.parents.get(node), ast.FormattedValue):
                            rep.check(ast.unparse(node.value) in stripped, "C15.i", q, f"{lab}: the converter gets the token without its suffix",
                                      f"`{ast.unparse(model.parents.get(node))[:70]}` hands the raw text of a suffixed literal (it ends in the suffix letter) to the converter", line=node.lineno)
            for st in arm or []:
                for node in ast.walk(st):
                    if isinstance(node, ast.Attribute) and node.attr == "value" and ast.unparse(node.value) in aliases:
                        par = model.parents.get(node)
                        if isinstance(par, ast.FormattedValue):
                            continue
                        n += 1
                        ok = isinstance(par, ast.Call) and node in par.args and isinstance(par.func, ast.Attribute) and par.func.attr in conv
                        rep.check(ok, "C15.i", q, f"{lab}: token text goes through {'/'.join(sorted(conv))}",
                                  f"`{ast.unparse(par)[:70]}` reads the text of a {sorted(kinds)[0][6:]} token directly: escapes are not interpreted on this path "
                                  "(`['\\n']` inside brackets would denote 110, the letter n)", line=node.lineno)
    if n < 6:
        # (not raised on the spot: a change that moves token reads elsewhere is usually what a later rule of this module reports)
        rep.notes.append(f"C15.i: only {n} literal-token reads found (floor 6)")
        ctx._c15_deferred = f"C15.i: only {n} literal-token reads found (floor 6)"


_run_i15 = run


def run(ctx, rep, tier):
    _run_i15(ctx, rep, tier)
    _token_conversion_discipline(ctx, rep, tier)
    from .shared import delegate
    rep.rule("C15.k", "a literal in match position that denotes the empty byte string is refused (its machine would have no accepting state: everything after it is dropped)")
    q = "ParseCtx._parse_match_expr"
    hits = ctx.model.find(q, "if not match.match_contents:\n    raise IllegalParseTree($$m, actual_content)")
    made = [c for c in calls_in(ctx.model.func(q)) if isinstance(c.func, ast.Name) and c.func.id in ("DirectMatch", "CaseDirectMatch")]
    rep.check(len(hits) >= 2 and len(made) == 3, "C15.k", q, f"each of the {len(made)} literal-match constructions is followed by the emptiness test",
              "`\"a\"; \"\"; \"b\";` compiles into a dead end: the empty literal's machine has a start state without transitions and no accepting state")
    delegate(ctx, rep, tier, "C03", ("C03.n",), "C15.j", "a string constant assigned at the start keeps its first byte: the initial terminator is written before the start actions run")


# ---------------------------------------------------------------------------------------------------------------- C15.m / C15.n
def _byte_range_and_dead_arms(ctx, rep, tier):
    """C15.m (F-93/F-94): one character of a literal stands for one byte - a character above 0xff denotes no byte; the generated test compares the input byte with its code
    point and never matches. Every converter that turns source characters into match symbols refuses them. C15.n (F-96): an if/elif chain over one expression in which a later
    arm's constant is already taken by an earlier `not in [..]` / `==` arm is dead - `out raw{T} r = 5;` went through the 'not a string type' arm, the refusal behind it never ran."""
    model = ctx.model
    rep.rule("C15.m", "literal converters refuse characters above 0xff (strings used as matches, regex atoms)")
    cs = model.func("ParseCtx._convert_string")
    last_if = [st for st in strip_doc(cs.body) if isinstance(st, ast.If)]
    ok = bool(last_if) and re.fullmatch(r"any\(\(?ord\((\w+)\) > 255 for \1 in result\)?\)", ast.unparse(last_if[-1].test)) is not None and isinstance(last_if[-1].body[-1], ast.Raise) and \
        model.is_subclass(raised_class(last_if[-1].body[-1]) or "", "NMFUError") and isinstance(strip_doc(cs.body)[-1], ast.Return) and strip_doc(cs.body)[-2] is last_if[-1]
    rep.check(ok, "C15.m", "ParseCtx._convert_string", "result checked against the byte range just before it is returned (every use: match, case label, value)",
              "a string literal with a character above 0xff is accepted in match position: `\"€\";` compares the input byte with 8364 and never matches (the same literal is refused as a value)")
    ru = model.func("RegexMatch._convert_raw_regex_unimportant")
    ok = any(isinstance(i, ast.If) and re.fullmatch(r"any\(\(?ord\((\w+)\) > 255 for \1 in v\.chars\)?\)", ast.unparse(i.test)) and isinstance(i.body[-1], ast.Raise) and
             model.is_subclass(raised_class(i.body[-1]) or "", "NMFUError") for i in strip_doc(ru.body))
    rep.check(ok, "C15.m", "RegexMatch._convert_raw_regex_unimportant", "regex atoms above 0xff are refused",
              "`/€/` compares the input byte with 8364; `/[a-€]/` silently matches every byte from `a` to 0xff")
    # character constants (F-121): the arm that returns the source character itself checks it against the byte range first
    cc = model.func("ParseCtx._convert_char_const")
    okc = False
    for i in ast.walk(cc):
        if isinstance(i, ast.If) and ast.unparse(i.test) == "len(char_const) == 3":
            guards = [st for st in i.body if isinstance(st, ast.If) and re.fullmatch(r"ord\(char_const\[1\]\) > (255|0xff)", ast.unparse(st.test).replace("0xff", "255").replace("255", "255")) is not None
                      and isinstance(st.body[-1], ast.Raise) and model.is_subclass(raised_class(st.body[-1]) or "", "NMFUError")]
            rets = [st for st in i.body if isinstance(st, ast.Return)]
            okc = bool(guards) and bool(rets) and i.body.index(guards[0]) < i.body.index(rets[0]) and ast.unparse(rets[0].value) == "char_const[1]"
    rep.check(okc, "C15.m", "ParseCtx._convert_char_const", "a character constant above 0xff is refused",
              "`'€'` denotes 8364 (appended as a character it stores the byte 0xac) while strings and regexes refuse the same character: a literal spells bytes")
    rep.rule("C15.n", "no arm of an if/elif chain over one expression is shadowed by an earlier arm (constant subsumption)")
    n = 0
    for q, f in model.functions.items():
        for node in ast.walk(f):
            if not isinstance(node, ast.If):
                continue
            par = model.parents.get(node)
            if isinstance(par, ast.If) and par.orelse == [node]:
                continue        # not the head of a chain
            taken = {}          # expr text -> ("all_but", set) | ("only", set)
            arm = node
            while isinstance(arm, ast.If):
                t = arm.test
                if isinstance(t, ast.Compare) and len(t.ops) == 1:
                    e = ast.unparse(t.left)
                    c = t.comparators[0]
                    consts = None
                    if isinstance(c, ast.Constant):
                        consts = {repr(c.value)}
                    elif isinstance(c, (ast.List, ast.Tuple, ast.Set)) and all(isinstance(x, ast.Constant) for x in c.elts):
                        consts = {repr(x.value) for x in c.elts}
                    if consts is not None:
                        n += 1
                        covered = taken.get(e)
                        if isinstance(t.ops[0], (ast.Eq, ast.In)) and covered is not None:
                            dead = (covered[0] == "all_but" and not (consts & covered[1])) or (covered[0] == "only" and consts <= covered[1])
                            if dead:
                                rep.bad("C15.n", q, f"elif {ast.unparse(t)[:70]}", f"`elif {ast.unparse(t)}` can never be taken: an earlier arm of the same chain already takes every such value of `{e}` - "
                                        "in _parse_out_decl the refusal of a default value for a raw output stood behind `not in [<string types>]`, so `out raw{T} r = 5;` was accepted and the value dropped",
                                        line=arm.lineno)
                        if isinstance(t.ops[0], ast.NotIn):
                            taken[e] = ("all_but", consts) if covered is None else covered
                        elif isinstance(t.ops[0], (ast.Eq, ast.In)):
                            if covered is None:
                                taken[e] = ("only", set(consts))
                            elif covered[0] == "only":
                                covered[1].update(consts)
                arm = arm.orelse[0] if len(arm.orelse) == 1 and isinstance(arm.orelse[0], ast.If) else None
    rep.bulk_ok("C15.n", n)
    rep.check(n >= 100, "C15.n", "module", f"{n} constant-comparison arms examined", "too few if/elif arms recognised")


_run_m15 = run


def run(ctx, rep, tier):
    _run_m15(ctx, rep, tier)
    _byte_range_and_dead_arms(ctx, rep, tier)


# ---------------------------------------------------------------------------------------------------------------- C15.o
def _no_literal_split_across_tokens(ctx, rep, tier):
    """C15.o (F-108): blanks and comments are ignored between any two tokens. A literal whose spelling includes a letter suffix (`"..."i`, `"..."b`) must therefore be ONE
    terminal: written as the string terminal followed by a keyword terminal, `"x" i` - a string followed by the name i, legal inside a concat-expression - is read as the
    suffixed literal (the keyword beats the identifier). Every grammar rule is scanned for a literal terminal directly followed by a keyword terminal made of letters."""
    g = ctx.grammar
    rep.rule("C15.o", "no literal is split across tokens: a literal terminal is never directly followed by a letter keyword in a grammar rule")
    lits = {"STRING", "CHAR_CONSTANT", "NUMBER", "RADIX_NUMBER", "HEX_NUMBER", "BIN_NUMBER"}
    n = 0
    for origin, rules in g.rules.items():
        for r in rules:
            exp = list(r.expansion)
            for a, b in zip(exp, exp[1:]):
                if not (a.is_term and b.is_term and str(a.name) in lits):
                    continue
                n += 1
                t = g.terminals.get(str(b.name))
                pat_ = getattr(t, "pattern", None)
                val = getattr(pat_, "value", "") if type(pat_).__name__ == "PatternStr" else ""
                rep.check(not (val and val.isalpha()), "C15.o", f"grammar:{origin}", f"{a.name} followed by {b.name}",
                          f"rule `{origin}` spells a literal as the terminal {a.name} followed by the keyword \"{val}\": ignorable text is allowed between them, so inside a concat-expression "
                          f"`\"x\" {val}` (a string followed by the name {val}) is read as the suffixed literal - a macro whose match argument is called {val} does not behave like its expansion")
    rep.count("literal_followed_by_terminal_pairs", n)


_run_o15 = run


def run(ctx, rep, tier):
    _run_o15(ctx, rep, tier)
    _no_literal_split_across_tokens(ctx, rep, tier)


# ---------------------------------------------------------------------------------------------------------------- C15.p
def _parse_tree_is_read_only(ctx, rep, tier):
    """C15.p (E10): the front end never stores into a parse tree node. The tree is shared: the body of a macro is parsed once per call from the same nodes, a
    match / expr argument once per use. A converter that strips the suffix of a literal *in the token* (instead of in a copy) denotes the spelled bytes the
    first time and one byte less every further time; a child list edited in place changes the program for the next expansion."""
    from .. import treeshape
    rep.rule("C15.p", "no attribute of a parse tree node is assigned and no child list is modified anywhere in the front end (values typed as grammar shapes by the "
                      "tree-shape analysis): a literal read a second time - second expansion of a macro body, second use of an argument - spells the same bytes")
    a = treeshape.analyse(ctx)
    muts = [f for f in a.findings if f.kind == "MUT"]
    seen = set()
    for f in muts:
        if (f.func, f.construct) in seen:
            continue
        seen.add((f.func, f.construct))
        rep.bad("C15.p", f.func, f"store into the parse tree: {f.construct}"[:200], f.message)
    n_typed = len({fn for fn, _, _ in a.checked})
    if n_typed < 12:
        raise AnalysisError(f"C15.p: only {n_typed} functions handle typed parse tree values (floor 12): the tree-shape analysis has lost its roots")
    if not muts:
        rep.ok("C15.p", "front end", f"{n_typed} functions that handle parse tree values: no store into a node, no edit of a child list")
        rep.bulk_ok("C15.p", n_typed - 1)


_run_p15 = run


def run(ctx, rep, tier):
    _run_p15(ctx, rep, tier)
    _parse_tree_is_read_only(ctx, rep, tier)



_run_r6 = run


def run(ctx, rep, tier):
    _run_r6(ctx, rep, tier)
    msg = getattr(ctx, "_c15_deferred", None)
    if msg and not rep.violations:
        raise AnalysisError(msg)
