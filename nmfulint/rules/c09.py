"""C09 - acceptance implies one-byte-lookahead unambiguity (DESIGN.md section 3, C09): reject, never resolve silently."""
import ast, re
from ..core import AnalysisError
from ..srcmodel import walk_no_nested, calls_in, strip_doc
from ..guards import check_refusal, find_ifs, arm_refuses

EXPLANATION = (
    "Soundness of the conflict tests for all programs (that every ambiguous program trips one of them) is NOT decided. "
    "Decided - ambiguity, once detected, is refused and never resolved silently: at each of the conflict sites "
    "(DFA.append_after join test; DFState.transition duplicate; CaseNode._merge finish conflicts x3; OptionalNode.convert; "
    "LoopNode.convert; RegexMatch._create_dfa_state duplicate) the documented conflict condition is intact, its true-arm "
    "reaches a raise of an NMFUError subclass on every path with no continue/return/assignment that repairs the conflict "
    "first, and is not nested under a debug flag. Plus two dataflow conditions the join test depends on: per-end-state "
    "quantities of append_after are recomputed for every end state, and the greedy tie test counts the finishers at the "
    "maximum priority. C09.e lists every silent-replacement site (allow_replace) for the reader.")
NOT_DECIDED = "completeness of the conflict tests (that no ambiguous program slips through all of them): a language-theoretic fact about the built machines"
ENGINES = ["E1 source model", "refusal-guard recogniser"]


def run(ctx, rep, tier):
    model = ctx.model
    rep.rule("C09.a", "join-time conflict (append_after) raises IllegalDFAStateConflictsError; per-end-state quantities are recomputed inside the end-state loop")
    check_refusal(rep, model, "C09.a", "DFA.append_after", r"not all\(\(?x\.error_handling or x\.target == transition\.target for x in targets\)?\)",
                  "ambiguous join is refused", "two valid continuations for one byte when joining statements must be refused",
                  exact=lambda t: t == "not all((x.error_handling or x.target == transition.target for x in targets))")
    fn = model.func("DFA.append_after")
    loop = next((n for n in walk_no_nested(fn) if isinstance(n, ast.For) and ast.unparse(n.target) == "sub_state" and ast.unparse(n.iter) == "sub_states"
                 and any(isinstance(m, ast.For) and ast.unparse(m.iter) == "chained_transitions" for m in n.body)), None)
    if loop is None:
        raise AnalysisError("append_after: loop over sub_states not found")
    for var, expr in (("local_else_meaning", "sub_state.compute_foreign_else_definition(chained_dfa.starting_state)"), ("sub_local_alphabet", "sub_state.local_alphabet()")):
        direct = [st for st in loop.body if isinstance(st, ast.Assign) and ast.unparse(st.targets[0]) == var]
        anywhere = [n for n in ast.walk(fn) if isinstance(n, ast.Assign) and ast.unparse(n.targets[0]) == var]
        if var == "sub_local_alphabet" and not anywhere:
            continue
        rep.check(len(direct) == 1 and len(anywhere) == 1 and ast.unparse(direct[0].value) == expr, "C09.a", "DFA.append_after", f"{var} recomputed for every end state",
                  f"`{var}` is not recomputed unconditionally for each end state (or from the wrong operands): conflicts on later end states with a different alphabet are missed")
    inner = next((n for n in loop.body if isinstance(n, ast.For) and ast.unparse(n.iter) == "chained_transitions"), None)
    rep.check(inner is not None, "C09.a", "DFA.append_after", "every chained start transition is tested against every end state", "the join test no longer visits every (end state, start transition) pair")
    if inner is not None:
        src = ast.unparse(inner)
        wid = [n for n in ast.walk(inner) if isinstance(n, ast.If) and any("relevant_values.update(local_else_meaning)" in ast.unparse(b) for b in n.body)]
        rep.check(len(wid) == 1 and ast.unparse(wid[0].test) == "DFTransition.Else in relevant_values" and wid[0] in inner.body, "C09.a", "DFA.append_after",
                  "Else of every chained start transition is widened by the end state's foreign-else meaning",
                  f"Else widening is now conditional on `{ast.unparse(wid[0].test) if wid else None}`: for the excluded transitions the symbols their Else really covers on "
                  "this end state are neither conflict-tested nor redirected")
        rep.check("target = sub_state[relevant_values]" in src and "v = sub_state[value]" in src, "C09.a", "DFA.append_after", "conflicting transitions looked up per symbol", "lookup of potentially conflicting transitions changed")
    repl = [c for c in calls_in(fn) if isinstance(c.func, ast.Attribute) and c.func.attr == "transition" and any(k.arg == "allow_replace_if" for k in c.keywords)]
    ok = len(repl) == 1 and ast.unparse(next(k.value for k in repl[0].keywords if k.arg == "allow_replace_if")) == "lambda x: x.error_handling or x.target in valid_replacers"
    rep.check(ok, "C09.a", "DFA.append_after", "replacement admits only error-handling or same-target transitions", "the join's replacement predicate changed: valid transitions may now be overwritten silently")

    rep.rule("C09.b", "duplicate transitions on one state are refused unless replacement was explicitly allowed")
    fn = model.func("DFState.transition")
    ifs = find_ifs(fn, r"^allow_replace\(contain\)$")
    ok = len(ifs) == 1 and ifs[0].orelse and arm_refuses(model, ifs[0].orelse)[0]
    rep.check(ok, "C09.b", "DFState.transition", "else-arm of allow_replace raises", "a duplicate transition that may not be replaced is no longer refused")
    outer = find_ifs(fn, r"^contained and any\(")
    want = "contained and any((x.target != transition.target or x.is_fallthrough != transition.is_fallthrough or x.error_handling != transition.error_handling for x in contained))"
    rep.check(len(outer) == 1 and ast.unparse(outer[0].test) == want, "C09.b", "DFState.transition", "conflict = same symbol, different target / fallthrough / error flag",
              "the duplicate-transition condition changed")

    rep.rule("C09.c", "case finish conflicts: two finishing clauses (non-greedy), a tie at the maximum priority (greedy), finish-or-continue (non-greedy) are refused")
    q = "CaseNode._merge.create_real_state_of"
    check_refusal(rep, model, "C09.c", q, r"^not self\.greedy$", "several finishing clauses, non-greedy", "a string matching two clauses of a non-greedy case must be refused")
    fnm = model.func(q)
    multi = find_ifs(fnm, r"^len\(corresponds_to_finishes_in\) > 1$")
    rep.check(len(multi) == 1, "C09.c", q, "multiple-finish branch present", "the multiple-finish test changed")
    ties = [n for n in ast.walk(fnm) if isinstance(n, ast.If) and "priorities[target]" in ast.unparse(n.test)]
    if len(ties) != 1:
        rep.bad("C09.c", q, "greedy tie at the maximum priority", "the tie test on priorities[target] is missing")
    else:
        t = ast.unparse(ties[0].test)
        count_form = re.fullmatch(r"sum\(\(?1 for (\w+) in corresponds_to_finishes_in if priorities\[\1\] == priorities\[target\]\)?\) (> 1|>= 2)", t) or \
            re.fullmatch(r"len\(\[(\w+) for \1 in corresponds_to_finishes_in if priorities\[\1\] == priorities\[target\]\]\) (> 1|>= 2)", t)
        ok, why = arm_refuses(model, ties[0].body)
        rep.check(bool(count_form) and ok, "C09.c", q, "greedy tie at the maximum priority",
                  f"tie test is `{t}`: it must count the finishing clauses whose priority equals the maximum and refuse when more than one does "
                  "(otherwise max() over a set picks a winner by object address)", line=ties[0].lineno)
    tgt = [n for n in ast.walk(fnm) if isinstance(n, ast.Assign) and ast.unparse(n.targets[0]) == "target"]
    rep.check(len(tgt) == 1 and re.fullmatch(r"max\(corresponds_to_finishes_in, key=lambda (\w+): priorities\[\1\]\)", ast.unparse(tgt[0].value)) is not None, "C09.c", q,
              "greedy winner = max by priority", "greedy selection is no longer the maximum by priority")
    check_refusal(rep, model, "C09.c", q, r"^len\(is_part_of\) != 1 and \(?not self\.greedy\)?$", "finish-or-continue, non-greedy",
                  "a clause finishing while another could continue must be refused in a non-greedy case")

    rep.rule("C09.d", "optional / loop exit ambiguity and duplicate regex transitions are refused")
    check_refusal(rep, model, "C09.d", "OptionalNode.convert", r"^sub_dfa\.starting_state in sub_dfa\.accepting_states$", "optional body can match nothing",
                  "an optional whose body matches the empty string must be refused")
    check_refusal(rep, model, "C09.d", "LoopNode.convert", r"^transition\.target in sub_dfa\.accepting_states$", "loop end state steps to another end state",
                  "a loop whose end state can both loop again and continue matching must be refused (any transition from an end state into an end state, not only a self-loop)")
    fn = model.func("LoopNode.convert")
    g = find_ifs(fn, r"^transition\.target in sub_dfa\.accepting_states$")
    if g:
        chain = []
        n = g[0]
        while n in model.parents and n is not fn:
            n = model.parents[n]
            if isinstance(n, ast.For):
                chain.append(ast.unparse(n.iter))
        rep.check(chain == ["accept_state.all_transitions()", "sub_dfa.accepting_states"], "C09.d", "LoopNode.convert", "tested for every transition of every end state", f"loop ambiguity test iterates {chain}")
    fn = model.func("RegexMatch._create_dfa_state")
    g = find_ifs(fn, r"^conflict\.target != else_path$")
    rep.check(len(g) == 1 and arm_refuses(model, g[0].body)[0], "C09.d", "RegexMatch._create_dfa_state", "two non-else targets for one symbol are refused", "duplicate regex transition is no longer refused")

    rep.rule("C09.e", "silent replacement (allow_replace) sites are enumerated; each is listed with its reason")
    sites = []
    for qn, f in model.functions.items():
        for c in calls_in(f, nested=False):
            if isinstance(c.func, ast.Attribute) and c.func.attr == "transition":
                kw = {k.arg for k in c.keywords}
                if "allow_replace" in kw or "allow_replace_if" in kw or (len(c.args) >= 2 and isinstance(c.args[1], ast.Constant) and c.args[1].value is True):
                    sites.append((qn, ast.unparse(c)[:90]))
    reasons = {"DFState.__setitem__": "dictionary-style assignment: caller replaces a symbol's transition on purpose (builders only)",
               "DFA.append_after": "join: only error-handling / same-target transitions may be replaced (checked under C09.a)",
               "CaseNode._merge": "merge builds each superstate's transitions once per disjoint symbol set; replacement only collapses its own else"}
    for qn, src in sites:
        rep.check(qn in reasons, "C09.e", qn, f"replacement site: {src}", "a new silent-replacement site: a conflicting transition may now be overwritten instead of refused")
    if len(sites) < 4:
        raise AnalysisError(f"C09.e: only {len(sites)} replacement sites found")
    rep.analysed["replacement_sites"] = [f"{q}: {reasons.get(q, '?')}" for q, _ in sites]


def _shared(ctx, rep, tier):
    from .shared import delegate
    delegate(ctx, rep, tier, "C08", ("C08.c",), "C09.f", "greedy priorities reach the tie test: every pattern of a clause is recorded with its clause's priority (else a tie is masked by a defaulted 0)",
             where="CaseNode.convert", pred=lambda v: "priority" in v.construct or "prio" in v.construct)


_run0 = run


def run(ctx, rep, tier):
    _run0(ctx, rep, tier)
    _shared(ctx, rep, tier)


_run_i = run


def run(ctx, rep, tier):
    _run_i(ctx, rep, tier)
    from .c05 import check_getitem_contract
    check_getitem_contract(ctx, rep, "C09.g")


# ---------------------------------------------------------------------------------------------------------------- C09.h / C09.i
def _loop_back_and_proxy_first(ctx, rep, tier):
    import ast, re
    from ..srcmodel import walk_no_nested, raised_class
    model = ctx.model
    # C09.h: the loop-back edge gets the same conflict test as a join
    rep.rule("C09.h", "loop-back edge: a byte on which an end state of the body continues (Else widened by the end state's foreign-else definition w.r.t. the loop start) must not "
                      "start the next iteration - refused, not resolved")
    fq = "LoopNode.convert"
    fn = model.func(fq)
    outer = [n for n in walk_no_nested(fn) if isinstance(n, ast.For) and ast.unparse(n.iter) == "sub_dfa.accepting_states" and
             any(isinstance(x, ast.For) and ast.unparse(x.iter).endswith(".all_transitions()") for x in n.body)]
    ok = False
    why = "no test of the continuing transitions of the body's end states against the loop start"
    for o in outer:
        av = ast.unparse(o.target)
        for inner in [x for x in o.body if isinstance(x, ast.For)]:
            tv = ast.unparse(inner.target)
            src = ast.unparse(inner)
            skip_err = any(isinstance(s, ast.If) and ast.unparse(s.test) == f"{tv}.error_handling" and isinstance(s.body[-1], ast.Continue) for s in inner.body)
            widen = re.search(r"if DFTransition\.Else in (\w+):\s+\1\.update\((\w+)\.compute_foreign_else_definition\((\w+)\)\)", src)
            init = re.search(r"(\w+) = set\(%s\.on_values\)" % re.escape(tv), src)
            symloop = [x for x in inner.body if isinstance(x, ast.For) and init and ast.unparse(x.iter) == init.group(1)]
            if not (skip_err and widen and init and widen.group(1) == init.group(1) and symloop and av in (widen.group(2), widen.group(3))):
                continue
            # orientation (F-84): the Else of the END state is widened by the symbols the loop START names and the end state does not. compute_foreign_else_definition
            # returns <receiver's alphabet> - <argument's alphabet> (+ Else) - read off its definition - so the receiver must be the loop start
            cfd = ast.unparse(model.func("DFState.compute_foreign_else_definition"))
            recv_minus_arg = "our_alphabet = self.local_alphabet()" in cfd and "their_alphabet = other_state.local_alphabet()" in cfd and "local_else_additions = our_alphabet - their_alphabet" in cfd
            startv = widen.group(2) if widen.group(3) == av else widen.group(3)
            rep.check(recv_minus_arg and widen.group(3) == av, "C09.h", fq, "widening = symbols named by the loop start and not by the end state (receiver: loop start)",
                      f"the end state's Else is widened by `{widen.group(2)}.compute_foreign_else_definition({widen.group(3)})` = symbols of {widen.group(2)} not named by {widen.group(3)}: "
                      "the bytes the loop start names are never looked up, so a byte that continues the body's last statement through `.` / `[^..]` and also starts the next iteration "
                      "is not seen - `loop { it(); \"a\"; /(.b)*/; }` is accepted")
            rep.check(model.has(fq, f"{startv} = sub_dfa.starting_state"), "C09.h", fq, "widening is relative to the body's start state", "loop start binding changed")
            sl = symloop[0]
            sv = ast.unparse(sl.target)
            ssrc = ast.unparse(sl)
            plain = re.search(r"(\w+) = %s\[%s\]\s+(\w+) = \1 is not None and \(?not \1\.error_handling\)? and \(?\1\.target != %s\.target\)?" % (re.escape(startv), re.escape(sv), re.escape(tv)), ssrc)
            raises = [r for r in ast.walk(sl) if isinstance(r, ast.Raise)]
            good_raise = len(raises) == 1 and model.is_subclass(raised_class(raises[0]) or "", "NMFUError") and plain is not None and \
                isinstance(model.parents.get(raises[0]), ast.If) and ast.unparse(model.parents[raises[0]].test) == plain.group(2)
            ok = plain is not None and good_raise
            why = "the conflict test / raise of the loop-back check changed" if not ok else ""
    rep.check(ok, "C09.h", fq, "continuing byte that also starts the next iteration raises", f"{why}: `loop {{ /a(ab)*/; }}` is accepted and the second `a` of \"aa\" is silently taken as the start of \"ab\"")
    # C09.m (F-124): leading to the same state is only "the same thing" when nothing else tells the two readings apart
    rep.rule("C09.m", "loop-back edge: a continuing byte that also starts an iteration is waved through only if both readings are indistinguishable - same target state, no "
                      "actions opening an iteration, the same actions on both transitions")
    asg = [n for n in ast.walk(fn) if isinstance(n, ast.Assign) and ast.unparse(n.targets[0]) == "ambiguous" and "restart" in ast.unparse(n.value) and ".target" in ast.unparse(n.value)]
    okm = False
    for a in asg:
        v = ast.unparse(a.value)
        exempt = re.search(r"restart\.target != (\w+)\.target", v)
        if exempt is None:
            okm = True       # no exemption at all: every such byte is refused
            continue
        tvn = exempt.group(1)
        okm = re.search(r"restart\.target != %s\.target or bool\(self\.loop_start_actions\) or list\(restart\.actions\) != list\(%s\.actions\)" % (tvn, tvn), v) is not None
    rep.check(bool(asg) and okm, "C09.m", fq, "same-target exemption requires: no loop-start actions, equal action lists",
              "a byte that continues the body's last statement and also starts the next iteration is accepted whenever both transitions lead to the same state (a body that is one regex "
              "shares the state in its minimised machine) although the way back performs the actions that open an iteration: `loop { n = [n + 1]; /(ef)+/; }` counts one iteration "
              "for \"efef\", the other reading two")
    # C09.i: proxy starts: (valid, to-else) partition
    rep.rule("C09.i", "DFProxyState.equivalent_on_values returns disjoint sets: a symbol that some frontier state handles validly is not also reported as always-error")
    eq = "DFProxyState.equivalent_on_values"
    okp = model.has(eq, "if not state[possible].error_handling:\n    filtered.add(possible)") and model.has(eq, "encountered.update(filtered)\ncandidate_else.difference_update(filtered)\nreturn (encountered, candidate_else)")
    rep.check(okp, "C09.i", eq, "symbols valid in some branch are moved from the always-error set to the valid set", "a symbol that is an error in one branch but valid in another stays in both sets: "
              "append_after then marks the fake start's Else as an error path and skips the join check for it (`/[ef]+/; if c { \"xyz\"; } else { /[^q]z/; }` is accepted)")
    okq = model.has(eq, "if t.error_handling:\n    candidate_else.update(t.on_values)\nelse:\n    encountered.update(t.on_values)")
    rep.check(okq, "C09.i", eq, "frontier transitions are classified by their error mark", "classification of frontier transitions changed")


_run_j = run


def run(ctx, rep, tier):
    _run_j(ctx, rep, tier)
    _loop_back_and_proxy_first(ctx, rep, tier)


# ---------------------------------------------------------------------------------------------------------------- C09.k
def _one_else_clause(ctx, rep, tier):
    """C09.k (F-85): the clause table of a case statement is keyed by the set of a clause's labels with `else` as None, so two else clauses collide (or, with else in
    two different label sets, both claim the same inputs and CaseNode keeps one slot). Every place that enters the result of _parse_case_clause into a table
    must refuse a second clause containing else first."""
    import ast
    from ..srcmodel import walk_no_nested, raised_class
    model = ctx.model
    rep.rule("C09.k", "every clause entered into a case statement's clause table passes the 'second else clause' refusal first")
    n = 0
    for q, f in model.functions.items():
        for node in walk_no_nested(f):
            # comprehension straight from the clause parser: no place for a test
            if isinstance(node, (ast.DictComp,)) and "_parse_case_clause" in ast.unparse(node):
                n += 1
                rep.bad("C09.k", q, ast.unparse(node)[:80], "the clause table is built by a comprehension over _parse_case_clause: a second `else` clause has the same key "
                        "frozenset({None}) and silently replaces the first (`case { \"a\" -> {..} else -> { x = 2; } else -> { x = 3; } }` runs x = 3)", line=node.lineno)
            if isinstance(node, ast.Assign) and isinstance(node.value, ast.Call) and ast.unparse(node.value.func) == "self._parse_case_clause" and isinstance(node.targets[0], ast.Tuple):
                kv = ast.unparse(node.targets[0].elts[0])
                body = model.parents.get(node)
                seq = None
                for fld in ("body", "orelse"):
                    if hasattr(body, fld) and node in getattr(body, fld):
                        seq = getattr(body, fld)
                stores = [s for s in (seq or []) if isinstance(s, ast.Assign) and isinstance(s.targets[0], ast.Subscript) and ast.unparse(s.targets[0].slice) == kv and seq.index(s) > seq.index(node)]
                for st in stores:
                    n += 1
                    table = ast.unparse(st.targets[0].value)
                    between = seq[seq.index(node) + 1:seq.index(st)]
                    ok = any(isinstance(b, ast.If) and re.fullmatch(r"None in %s and any\(\(?None in (\w+) for \1 in %s\)?\)" % (re.escape(kv), re.escape(table)), ast.unparse(b.test))
                             and isinstance(b.body[-1], ast.Raise) and model.is_subclass(raised_class(b.body[-1]) or "", "NMFUError") for b in between)
                    rep.check(ok, "C09.k", q, f"{table}[{kv}] = ... after the second-else refusal",
                              f"`{ast.unparse(st)}` enters a clause into the table without refusing a second clause that contains `else`: the earlier one is silently dropped", line=st.lineno)
    rep.check(n >= 1, "C09.k", "ParseCtx", f"{n} clause-table stores examined", "no store of a parsed case clause found: re-derive this rule")


_run_k = run


def run(ctx, rep, tier):
    _run_k(ctx, rep, tier)
    _one_else_clause(ctx, rep, tier)


# ---------------------------------------------------------------------------------------------------------------- C09.l
def _join_behind_a_step(ctx, rep, tier):
    """C09.l (second half of the F-88 repair): chained actions that cannot ride on a consuming transition get a non-consuming step of their own (C01.s/t). The state
    behind such a step has no transitions of its own, so the join test of append_after finds nothing to compare the following statement with - the state that decides
    what happens to the byte is the one in FRONT of the step. append_after therefore tests the chained start transitions against every state that enters a join state
    through a non-error fall-through."""
    import ast
    model = ctx.model
    rep.rule("C09.l", "a join state entered through a non-consuming (non-error) step is also tested against what the state in front of the step continues with")
    q = "DFA.append_after"
    if "DFA.append_action_step" not in model.functions:
        rep.ok("C09.l", q, "no action steps are built in this tree (chained actions always ride on transitions of the join states: C01.s / C01.t report that)", nontrivial=False)
        return
    ok = model.has(q, "for sub_state in sub_states:\n    for predecessor, step in self.transitions_pointing_to(sub_state, include_states=True):\n"
                      "        if not step.is_fallthrough or step.error_handling or isinstance(predecessor, DFProxyState):\n            continue\n        ...") and \
        model.has(q, "starts_on = set(transition.on_values)\nif DFTransition.Else in starts_on:\n    starts_on.update(predecessor.compute_foreign_else_definition(chained_dfa.starting_state))") and \
        model.has(q, "continues = predecessor[symbol]\nif continues is not None and continues is not step and (not continues.error_handling) and (not continues.is_fallthrough) and (continues.target != transition.target):\n"
                     "    raise IllegalDFAStateConflictsError($$m, continues, transition)")
    fn = model.func(q)
    body = strip_doc(fn.body)
    i_chk = next((i for i, st in enumerate(body) if isinstance(st, ast.For) and "transitions_pointing_to(sub_state" in ast.unparse(st)), None)
    i_join = next((i for i, st in enumerate(body) if isinstance(st, ast.For) and "culled_chained_transitions" in ast.unparse(st)), None)
    rep.check(ok and i_chk is not None and i_join is not None and i_chk < i_join, "C09.l", q,
              "for every non-error fall-through entering a join state: a byte its source continues with (consuming, not an error path, other target) must not start the chained machine - refused",
              "append_after does not test the chained start transitions against the states that enter a join state through a non-consuming step: behind an action step the join state has no "
              "transitions, so `/b+/; optional { \"c\"; } if stop { finish; } \"b\";` is accepted and the second b silently goes to the regex")


_run_l = run


def run(ctx, rep, tier):
    _run_l(ctx, rep, tier)
    _join_behind_a_step(ctx, rep, tier)
