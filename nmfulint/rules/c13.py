"""C13 - macros behave exactly like their textual expansion (DESIGN.md section 3, C13)."""
import ast, re
from ..core import AnalysisError
from ..srcmodel import walk_no_nested, calls_in, strip_doc, raised_class
from ..dispatch import dispatch_on, dict_keys_src

EXPLANATION = (
    "Equivalence with inlining for all programs is NOT decided. Decided - the argument machinery's tables and pairing: "
    "C13.a declaration kinds are total over the grammar's macro_arg labels and RESULT_CODE language. C13.b the call-site "
    "kind table agrees with the consumers: its keys are the kinds a declaration can produce, its labels exist in the "
    "grammar, and for each kind the admitted labels equal the labels the consumer of such an argument accepts "
    "(_parse_match_expr for match; _parse_integer_expr + the string-assignment arm for expr; identifiers for the rest); "
    "the kind check is unconditional and precedes binding. C13.c arity is checked before binding (zip would truncate). "
    "C13.d push/pop of the argument frame and activation/restoration of the macro instance bracket exactly the body "
    "expansion. C13.e lookup scans the whole frame stack innermost-first before any global table; early binding is "
    "applied to exactly the identifier kinds; substituted expression arguments are re-parsed with the destination type "
    "propagated. C13.f expansion depth is bounded by a diagnosed error (no RecursionError). C13.g late-bound (match/expr) arguments keep the meaning their names have at the call site: the stored tree carries a snapshot of the call-site frames taken before the callee frame is pushed, every parse entry point switches to that snapshot before looking at the tree and restores the stack in a finally, and looked-up argument trees reach only those entry points.")
NOT_DECIDED = "behavioural equivalence of a macro call with its hand-inlined body (needs the compiled machines); hygiene of names captured by late-bound match/expr arguments"
ENGINES = ["E1 source model", "E2 grammar model", "E3 dispatch"]


def run(ctx, rep, tier):
    model, g = ctx.model, ctx.grammar
    consts = ctx.module_str_lists()

    # ------------------------------------------------------------------ C13.a declaration kinds
    rep.rule("C13.a", "declared argument kinds cover data(macro_arg); result-code sub-table covers RESULT_CODE")
    pma = model.func("ParseCtx._parse_macro_arguments")
    tbls = [n for n in walk_no_nested(pma) if isinstance(n, ast.Dict)]
    keys = set()
    kinds_produced = set()
    res_keys = set()
    for t in tbls:
        ks = [k.value for k in t.keys if isinstance(k, ast.Constant)]
        if all(k.startswith("macro_") for k in ks):
            keys |= set(ks)
        else:
            res_keys |= set(ks)
        for v in t.values:
            if isinstance(v, ast.Attribute) and isinstance(v.value, ast.Name) and v.value.id == "MacroArgumentKind":
                kinds_produced.add(v.attr)
    special = {n.comparators[0].value for n in walk_no_nested(pma) if isinstance(n, ast.Compare) and ast.unparse(n.left).endswith(".data") and isinstance(n.comparators[0], ast.Constant)}
    labels = g.labels("macro_arg")
    handled = keys | (special & labels)
    rep.check(handled == labels, "C13.a", "ParseCtx._parse_macro_arguments", f"handles the {len(labels)} macro_arg labels", f"grammar labels {sorted(labels)} vs handled {sorted(handled)}")
    rep.check(res_keys == g.terminal_language("RESULT_CODE"), "C13.a", "ParseCtx._parse_macro_arguments", "result-code table = language of RESULT_CODE", f"{sorted(res_keys)}")
    rep.check("macro_arg_empty" in special and g.labels("macro_args") == {"macro_args", "macro_arg_empty"}, "C13.a", "ParseCtx._parse_macro_arguments", "empty argument list handled", "macro_arg_empty no longer handled")
    dup = any(isinstance(n, ast.Raise) and raised_class(n) == "DuplicateDefinitionError" for n in walk_no_nested(pma))
    rep.check(dup, "C13.a", "ParseCtx._parse_macro_arguments", "duplicate parameter names refused", "duplicate macro parameter names are no longer refused")

    # ------------------------------------------------------------------ C13.b call-site kind table
    rep.rule("C13.b", "bind_arguments_for: kind table keys = producible kinds; admitted labels = labels the consumers of such an argument accept; check unconditional, before binding")
    baf = model.func("Macro.bind_arguments_for")
    at = next((n for n in walk_no_nested(baf) if isinstance(n, ast.Dict) and all(isinstance(k, ast.Attribute) for k in n.keys)), None)
    if at is None:
        raise AnalysisError("bind_arguments_for: allowed_types table not found")
    table = {}
    for k, v in zip(at.keys, at.values):
        labs = set()
        elts = v.elts if isinstance(v, (ast.Tuple, ast.List)) else None
        if elts is None:
            raise AnalysisError("allowed_types entry is not a tuple")
        for e in elts:
            if isinstance(e, ast.Constant):
                labs.add(e.value)
            elif isinstance(e, ast.Starred) and isinstance(e.value, ast.Name) and e.value.id in consts:
                labs |= set(consts[e.value.id])
            else:
                raise AnalysisError(f"allowed_types entry element {ast.unparse(e)} not understood")
        table[k.attr] = labs
    rep.check(set(table) == kinds_produced, "C13.b", "Macro.bind_arguments_for", "table keys = kinds a declaration can produce", f"table {sorted(table)} vs produced {sorted(kinds_produced)}")
    expr_labels = g.labels("expr")
    for kind, labs in table.items():
        rep.check(labs <= expr_labels, "C13.b", "Macro.bind_arguments_for", f"{kind}: labels exist in the grammar", f"{kind} admits labels the grammar cannot produce: {sorted(labs - expr_labels)}")
    pme = dispatch_on(model.func("ParseCtx._parse_match_expr").body, "expr.data", consts)
    match_accepts = pme.handled()
    rep.check(table.get("MATCH") == match_accepts, "C13.b", "Macro.bind_arguments_for", "MATCH admits exactly what _parse_match_expr accepts",
              f"`match` parameters admit {sorted(table.get('MATCH', []))} but _parse_match_expr accepts {sorted(match_accepts)} "
              f"(difference: {sorted(match_accepts ^ table.get('MATCH', set()))}): a call is rejected/accepted although its expansion is not")
    pie = model.func("ParseCtx._parse_integer_expr")
    pid = dispatch_on(pie.body, "expr.data", consts)
    banned = set()
    for n in walk_no_nested(pie):
        if isinstance(n, ast.Assign) and isinstance(n.targets[0], ast.Name) and n.targets[0].id == "BANNED_TYPES":
            banned = set(ast.literal_eval(n.value))
    int_accepts = pid.handled() - banned
    # string assignment arm accepts string_const through an expr argument
    pas = ast.unparse(model.func("ParseCtx._parse_assign_stmt"))
    if model.has("ParseCtx._parse_assign_stmt", "sub_expr.data != 'string_const'") and model.has("ParseCtx._parse_assign_stmt", "_lookup_named_entity(MacroArgumentKind.EXPR"):
        int_accepts = int_accepts | {"string_const"}
    rep.check(table.get("INTEXPR") == int_accepts, "C13.b", "Macro.bind_arguments_for", "INTEXPR admits exactly what the expression consumers accept",
              f"`expr` parameters admit {sorted(table.get('INTEXPR', []))} but consumers accept {sorted(int_accepts)} (difference {sorted(int_accepts ^ table.get('INTEXPR', set()))})")
    for kind in kinds_produced - {"MATCH", "INTEXPR"}:
        rep.check(table.get(kind) == {"identifier_const"}, "C13.b", "Macro.bind_arguments_for", f"{kind} admits identifiers only", f"{kind} admits {sorted(table.get(kind, []))}")
    # check unconditional and before binding, inside the zip loop
    loop = next((n for n in walk_no_nested(baf) if isinstance(n, ast.For)), None)
    if loop is None:
        raise AnalysisError("bind_arguments_for: loop not found")
    rep.check("zip(self.arguments, input_trees)" in ast.unparse(loop.iter), "C13.b", "Macro.bind_arguments_for", "pairs declared parameters with call arguments positionally", "argument pairing changed")
    idx_check = idx_bind = idx_store = None
    for i, st in enumerate(loop.body):
        src = ast.unparse(st)
        if isinstance(st, ast.If) and "not in allowed_types" in ast.unparse(st.test) and any(isinstance(x, ast.Raise) and raised_class(x) == "IllegalParseTree" for x in st.body):
            idx_check = i
        if isinstance(st, ast.If) and ast.unparse(st.test) == "argspec.should_early_bind()" and idx_bind is None:
            idx_bind = i
        if isinstance(st, ast.Assign) and "bound_arguments[" in src:
            idx_store = i
    idx_fwd = next((i for i, st in enumerate(loop.body) if isinstance(st, ast.If) and ast.unparse(st.test) == "not argspec.should_early_bind() and value.data == 'identifier_const'"), None)
    rep.check(idx_fwd is not None and idx_check is not None and idx_fwd < idx_check and
              model.has("Macro.bind_arguments_for", "try:\n    value = parse_ctx._lookup_named_entity(MacroArgumentKind.EXPR, value.children[0])\nexcept UndefinedReferenceError:\n    pass", root=[loop.body[idx_fwd]] if idx_fwd is not None else None),
              "C13.b", "Macro.bind_arguments_for", "a forwarded bare identifier is resolved to the caller's argument before the kind check looks at it",
              "the kind check sees the bare identifier (allowed for every kind), not what is actually passed: `macro A(expr e) { B(e); }` hands an integer expression to `macro B(match w)` undiagnosed")
    rep.check(idx_check is not None and idx_bind is not None and idx_store is not None and idx_check < idx_bind < idx_store, "C13.b", "Macro.bind_arguments_for",
              "kind check is a top-level statement of the loop, before early binding and storing",
              "the argument-kind check is missing, conditional, or placed after binding: a wrong-kind argument is no longer a diagnosed error in every case")
    if idx_check is not None:
        t = ast.unparse(loop.body[idx_check].test)
        rep.check(t == "value.data not in allowed_types", "C13.b", "Macro.bind_arguments_for", "check compares the argument's label with the table row", f"kind check is `{t}`")
    if idx_store is not None:
        rep.check("bound_arguments[argspec.get_lookup_type(), argspec.name] = value" in ast.unparse(loop.body[idx_store]), "C13.b", "Macro.bind_arguments_for",
                  "frame key = (lookup type, parameter name)", "frame key changed")
    if idx_bind is not None:
        rep.check("value = parse_ctx._lookup_named_entity(argspec.kind, value.children[0])" in ast.unparse(loop.body[idx_bind]), "C13.b", "Macro.bind_arguments_for",
                  "early binding resolves the identifier in the caller's scope", "early binding changed")

    # ------------------------------------------------------------------ C13.c / d / f  _parse_macro_call
    rep.rule("C13.c", "arity is checked (diagnosed error) before arguments are bound")
    rep.rule("C13.d", "frame push / macro activation are matched by pop / restore around exactly the body expansion")
    rep.rule("C13.f", "expansion depth / recursion is refused with a diagnosed error before expanding")
    pmc = model.func("ParseCtx._parse_macro_call")
    body = strip_doc(pmc.body)
    pos = {}
    for i, st in enumerate(body):
        src = ast.unparse(st)
        if isinstance(st, ast.If) and "len(arguments) != len(macro.arguments)" in ast.unparse(st.test) and any(isinstance(x, ast.Raise) and raised_class(x) == "IllegalParseTree" for x in st.body):
            pos["arity"] = i
        if "self.bound_argument_stack.append(" in src and isinstance(st, ast.Expr):
            pos["push"] = i
            pos["push_binds"] = "macro.bind_arguments_for(arguments, self)" in src
        if isinstance(st, ast.Assign) and ast.unparse(st.targets[0]) == "self.active_macro" and "MacroInstance(macro, self.active_macro)" in src:
            pos["activate"] = i
        if "self._parse_stmt_seq(macro.parse_tree)" in src:
            pos["expand"] = i
        if isinstance(st, ast.Delete) and "self.bound_argument_stack[-1]" in src or (isinstance(st, ast.Expr) and "self.bound_argument_stack.pop()" in src):
            pos["pop"] = i
        if isinstance(st, ast.Assign) and ast.unparse(st.targets[0]) == "self.active_macro" and ast.unparse(st.value) == "self.active_macro.parent":
            pos["restore"] = i
        if isinstance(st, ast.Return):
            pos["return"] = i
        if isinstance(st, ast.If) and any(isinstance(x, ast.Raise) and model.is_subclass(raised_class(x) or "", "NMFUError") for x in st.body) and \
                re.search(r"depth|active_macro|instance", ast.unparse(st.test)):
            pos["guard"] = i
        if isinstance(st, ast.While) and ".parent" in src and any(isinstance(x, ast.Raise) for x in ast.walk(st)):
            pos["guard"] = i
    rep.check("arity" in pos and "push" in pos and pos["arity"] < pos["push"] and pos.get("push_binds"), "C13.c", "ParseCtx._parse_macro_call", "arity check precedes bind_arguments_for",
              "a call with the wrong number of arguments is no longer refused before binding (zip silently truncates)")
    order = [pos.get(k) for k in ("push", "activate", "expand", "pop", "restore", "return")]
    rep.check(all(o is not None for o in order) and order == sorted(order) and len(set(order)) == 6, "C13.d", "ParseCtx._parse_macro_call",
              "push < activate < expand < pop < restore < return", f"statement order {dict((k, pos.get(k)) for k in ('push', 'activate', 'expand', 'pop', 'restore', 'return'))}")
    rep.check("guard" in pos and pos["guard"] < pos.get("push", -1), "C13.f", "ParseCtx._parse_macro_call", "depth / recursion guard before expansion",
              "nothing bounds the chain of active macros: `macro a() { a(); }` recurses until RecursionError (an internal exception, not a diagnosed error)")
    # the expansion recursion exists as analysed
    ps = ast.unparse(model.func("ParseCtx._parse_stmt"))
    rep.check(model.has("ParseCtx._parse_stmt", "return self._parse_macro_call(stmt, referenced, stmt.children[1:])"), "C13.d", "ParseCtx._parse_stmt", "call statement expands the macro with the call's argument trees", "macro call site changed")

    # ------------------------------------------------------------------ C13.e lookup
    rep.rule("C13.e", "lookup consults the innermost frame (lexical scope of the macro being expanded), then the global tables; early binding = identifier kinds; substituted expressions keep the destination type")
    lne = model.func("ParseCtx._lookup_named_entity")
    loops = [n for n in walk_no_nested(lne) if isinstance(n, ast.For) and "bound_argument_stack" in ast.unparse(n.iter)]
    # lexical scoping: the body of a macro sees the frame of the macro being expanded (the innermost one) and the global tables - not its callers' frames
    ok = len(loops) == 2 and all(ast.unparse(l.iter) == "self.bound_argument_stack[-1:]" for l in loops)
    rep.check(ok, "C13.e", "ParseCtx._lookup_named_entity", "only the innermost frame (the macro being expanded) is consulted",
              f"frame scan is `{[ast.unparse(l.iter) for l in loops]}`: a free name in a macro body is captured by an argument of whichever macro calls it "
              "(`macro inner() { x = 1; } macro outer(out x) { inner(); }`: outer(y) sets y, the expansion sets x)")
    single = [l for l in loops if "if (context, name) in entry:" in ast.unparse(l) and "return entry[context, name]" in ast.unparse(l)]
    rep.check(len(single) == 1, "C13.e", "ParseCtx._lookup_named_entity", "single-kind lookup: the frame's binding of (kind, name) wins", "frame lookup changed")
    if single:
        body = strip_doc(lne.body)
        li = next(i for i, st in enumerate(body) if st is single[0])
        later = "\n".join(ast.unparse(s) for s in body[li + 1:])
        earlier = "\n".join(ast.unparse(s) for s in body[:li])
        rep.check("self.hooks" in later and "self.macros" in later and "self.state_object_spec" in later and "self.hooks" not in earlier.replace("self.hooks,", ""), "C13.e",
                  "ParseCtx._lookup_named_entity", "global tables consulted only after the frame", "global lookup now precedes the argument frame")
    # C13.h: in a multi-kind lookup the frame is consulted for every kind before any global table (an argument shadows a global of another kind)
    rep.rule("C13.h", "an argument shadows global names: multi-kind lookups try every kind in the frame first; the enum-constant shortcut of math variables yields to arguments")
    multi = [n for n in lne.body if isinstance(n, ast.If) and ast.unparse(n.test) == "type(context) is not MacroArgumentKind"]
    okm = False
    if multi:
        b = multi[0].body
        okm = len(b) >= 2 and isinstance(b[0], ast.For) and ast.unparse(b[0].iter) == "self.bound_argument_stack[-1:]" and \
            model.has("ParseCtx._lookup_named_entity", "for attempt in context:\n    if (attempt, name) in entry:\n        return (entry[attempt, name], attempt)", root=[b[0]]) and \
            isinstance(b[1], ast.For) and "self._lookup_named_entity(attempt, from_tree)" in ast.unparse(b[1])
    rep.check(okm, "C13.h", "ParseCtx._lookup_named_entity", "multi-kind lookup: frame for every kind, then the per-kind lookups in order",
              "a multi-kind lookup reaches a global table of its first kind before it has looked for an argument of a later kind: `macro bar(hook foo) { foo(); }` expands a global macro foo instead of calling the hook")
    pmv = dispatch_on(model.func("ParseCtx._parse_math_expr").body, "expr.data", consts).arm_for("math_var")
    srcv = "\n".join(ast.unparse(s) for s in pmv) if pmv else ""
    rep.check(re.search(r"is_argument = any\(\(\(kind, expr\.children\[0\]\.value\) in entry for entry in self\.bound_argument_stack\[-1:\] for kind in \(MacroArgumentKind\.EXPR, MacroArgumentKind\.OUT\)\)\)", srcv) is not None and
              re.search(r"if not is_argument and into_storage is not None and \(?into_storage\.type == OutputStorageType\.ENUM\)? and", srcv) is not None, "C13.h", "ParseCtx._parse_math_expr",
              "math variable: an argument of that name is used before the enum-constant reading", "`e = [v]` inside `macro m(expr v)` stores the enum constant v instead of the argument (while `e = v` uses the argument)")
    seb = model.func("MacroArgument.should_early_bind")
    kinds = set(re.findall(r"MacroArgumentKind\.(\w+)", ast.unparse(seb)))
    rep.check(kinds == kinds_produced - {"MATCH", "INTEXPR"}, "C13.e", "MacroArgument.should_early_bind", "early binding = identifier kinds", f"early-bound kinds {sorted(kinds)}")
    glt = ast.unparse(model.func("MacroArgument.get_lookup_type"))
    rep.check(model.has("MacroArgument.get_lookup_type", "self.kind in (MacroArgumentKind.MATCH, MacroArgumentKind.INTEXPR)") and model.has("MacroArgument.get_lookup_type", "return MacroArgumentKind.EXPR") and model.has("MacroArgument.get_lookup_type", "return self.kind"), "C13.e",
              "MacroArgument.get_lookup_type", "match/expr arguments share the EXPR namespace", "lookup-type mapping changed")
    # substituted expression arguments keep into_storage
    arm = pid.arm_for("identifier_const")
    src = "\n".join(ast.unparse(s) for s in arm) if arm else ""
    rep.check(re.search(r"expr = self\._lookup_named_entity\(MacroArgumentKind\.EXPR, expr\.children\[0\]\)\s+return self\._parse_integer_expr\(expr, into_storage=into_storage\)", src) is not None,
              "C13.e", "ParseCtx._parse_integer_expr", "substituted argument re-parsed with the destination type",
              "a substituted `expr` argument is re-parsed without the destination (into_storage): enum constants passed through a macro are rejected although the inlined program is accepted")
    pm = dispatch_on(model.func("ParseCtx._parse_math_expr").body, "expr.data", consts)
    arm = pm.arm_for("math_var")
    src = "\n".join(ast.unparse(s) for s in arm) if arm else ""
    rep.check("return self._parse_integer_expr(out_spec, into_storage=into_storage)" in src and "(MacroArgumentKind.EXPR, MacroArgumentKind.OUT)" in src, "C13.e", "ParseCtx._parse_math_expr",
              "math variable: argument first, then output; destination type propagated", "math_var substitution changed")
    arm = pme.arm_for("identifier_const")
    src = "\n".join(ast.unparse(s) for s in arm) if arm else ""
    rep.check("return self._parse_match_expr(self._lookup_named_entity(MacroArgumentKind.EXPR, expr.children[0]))" in src, "C13.e", "ParseCtx._parse_match_expr",
              "identifier in match position resolves to the match argument", "match argument substitution changed")
    # call statement: macro wins over hook, ordered
    m = re.search(r"self\._lookup_named_entity\((\(|\[)MacroArgumentKind\.MACRO, MacroArgumentKind\.HOOK(\)|\]), stmt\.children\[0\]\)", ps)
    rep.check(m is not None, "C13.e", "ParseCtx._parse_stmt", "call resolves macro before hook, in a fixed order", "call-statement lookup order is no longer the ordered pair (macro, hook)")


# ---------------------------------------------------------------------------------------------------------------- C13.g
def _call_site_scope(ctx, rep, tier):
    """C13.g: a match/expr argument is a parse tree expanded where the callee uses it. 'Arguments substituted' means the names inside it
    keep the meaning they have at the call site, so (1) the stored tree carries a *snapshot* of the call-site frames, taken before the
    callee's frame is pushed, (2) every parse entry point that can receive such a tree makes that snapshot the current frame stack while
    it parses it - before it looks at the tree - and restores the stack afterwards, (3) looked-up argument trees flow only into those
    entry points (or are inspected for their label)."""
    model = ctx.model
    rep.rule("C13.g", "late-bound (match/expr) arguments are expanded with the argument frames of their call site: snapshot at bind time, scope switch at every parse entry point, no other consumer")
    BAF = "Macro.bind_arguments_for"
    if "BoundArgumentTree" not in model.classes:
        rep.bad("C13.g", BAF, "late-bound arguments carry no scope", "a match/expr argument is stored as a bare tree and parsed with the callee's frame on top: names in it are captured by callee "
                "parameters of the same name (`macro inner(expr v, expr w){x = w;} macro outer(expr v){inner(5, [v + 1]);}` stores 6 for outer(3); the same name recurses forever)")
        return
    # (1) snapshot at bind time
    init = "BoundArgumentTree.__init__"
    rep.check(model.has(init, "self.scope = tuple(scope)") or model.has(init, "self.scope = list(scope)"), "C13.g", init, "scope is copied (a later push of the callee frame must not show through)",
              "the argument keeps a reference to the live frame stack: once the callee's frame is pushed it is visible to the argument again (dynamic capture)")
    rep.check(model.has(init, "super().__init__(tree.data, tree.children, tree.meta)"), "C13.g", init, "label, children and position are those of the argument tree", "wrapped tree no longer mirrors the argument")
    f = model.func(BAF)
    loop = next((n for n in f.body if isinstance(n, ast.For)), None)
    if loop is None:
        raise AnalysisError("C13.g: binding loop not found")
    wrap = store = None
    for i, st in enumerate(loop.body):
        if wrap is None and model.has(BAF, "if not argspec.should_early_bind() and (not isinstance(value, BoundArgumentTree)):\n    value = BoundArgumentTree(value, parse_ctx.bound_argument_stack)", root=[st]):
            wrap = i
        if isinstance(st, ast.Assign) and "bound_arguments[" in ast.unparse(st.targets[0]):
            store = i
    rep.check(wrap is not None and store is not None and wrap < store, "C13.g", BAF, "every late-bound value is wrapped with the call-site frames before it is stored",
              "a late-bound argument reaches the callee's frame without the frames of its call site")
    rep.check(model.has("ParseCtx._parse_macro_call", "self.bound_argument_stack.append(macro.bind_arguments_for(arguments, self))"), "C13.g", "ParseCtx._parse_macro_call",
              "arguments are bound (scope snapshot taken) before the callee frame is pushed", "binding no longer precedes the push of the callee frame")
    # (2) scope switch
    sw = "ParseCtx._parse_in_argument_scope"
    fn = model.func(sw)
    tr = next((n for n in fn.body if isinstance(n, ast.Try)), None)
    ok = tr is not None and model.has(sw, "self.bound_argument_stack = list(expr.scope)") and tr.finalbody and \
        model.has(sw, "self.bound_argument_stack = saved_stack", root=tr.finalbody) and model.has(sw, "saved_stack = self.bound_argument_stack") and \
        model.has(sw, "return parse_function(lark.Tree(expr.data, expr.children, expr.meta), *args, **kwargs)", root=tr.body)
    rep.check(ok, "C13.g", sw, "frames := the argument's snapshot; parse the plain tree; restore in finally", "the scope switch no longer installs the snapshot / restores the stack on every exit")
    entries = {"ParseCtx._parse_match_expr": "return self._parse_in_argument_scope(self._parse_match_expr, expr)",
               "ParseCtx._parse_integer_expr": "return self._parse_in_argument_scope(self._parse_integer_expr, expr, into_storage=into_storage)",
               "ParseCtx._parse_math_expr": "return self._parse_in_argument_scope(self._parse_math_expr, expr, into_storage=into_storage)"}
    for q, call in entries.items():
        body = strip_doc(model.func(q).body)
        first = body[0] if body else None
        ok = isinstance(first, ast.If) and ast.unparse(first.test) == "isinstance(expr, BoundArgumentTree)" and model.has(q, call, root=first)
        rep.check(ok, "C13.g", q, "first statement: a scoped argument is re-parsed under its call-site frames (destination type kept)",
                  f"{q.split('.')[1]} looks at a late-bound argument before switching to its call-site frames (or drops the destination type)")
    # (3) consumers of looked-up argument trees
    n = 0
    for q, fdef in model.functions.items():
        for c in calls_in(fdef, nested=False):
            if not (isinstance(c.func, ast.Attribute) and c.func.attr == "_lookup_named_entity" and c.args and "MacroArgumentKind.EXPR" in ast.unparse(c.args[0])):
                continue
            if q == BAF:
                continue    # forwarding: the looked-up value is already scoped and is stored as it is (checked above)
            n += 1
            par = model.parents.get(c)
            what = f"lookup of a match/expr argument in {q.split('.')[-1]}"
            if isinstance(par, ast.Call) and ast.unparse(par.func) in ("self._parse_match_expr", "self._parse_integer_expr", "self._parse_math_expr"):
                rep.ok("C13.g", q, f"{what}: passed straight to {par.func.attr}")
                continue
            if isinstance(par, ast.Assign) and len(par.targets) == 1:
                tgt = par.targets[0]
                names = [e.id for e in (tgt.elts if isinstance(tgt, ast.Tuple) else [tgt]) if isinstance(e, ast.Name)]
                var = names[0] if names else None
                bad = []
                for u in _following_loads(model, par, fdef, var):
                    if True:
                        up = model.parents.get(u)
                        if isinstance(up, ast.Call) and u in up.args and isinstance(up.func, ast.Attribute):
                            if ast.unparse(up.func) in ("self._parse_match_expr", "self._parse_integer_expr", "self._parse_math_expr"):
                                continue
                            if up.func.attr in ("imbue",) or ast.unparse(up.func).endswith("Error") or ast.unparse(up.func) == "OutIntegerExpr":
                                continue
                            bad.append(ast.unparse(up)[:60])
                        elif isinstance(up, ast.Call) and u in up.args and isinstance(up.func, ast.Name):
                            if up.func.id in ("IllegalParseTree", "OutIntegerExpr", "isinstance"):
                                continue
                            bad.append(ast.unparse(up)[:60])
                        elif isinstance(up, ast.Attribute) and up.attr in ("data", "children", "meta", "holds_buflike", "type", "enum_values"):
                            # label tests / the children of a string constant (no names inside); .children of anything else must not be walked here
                            gp = model.parents.get(up)
                            if up.attr == "children" and not (isinstance(gp, ast.Subscript) and ast.unparse(gp).endswith(".children[0]") and
                                                              isinstance(model.parents.get(gp), ast.Attribute) and model.parents[gp].attr == "value"):
                                bad.append(ast.unparse(gp)[:60])
                            continue
                        else:
                            continue
                rep.check(not bad, "C13.g", q, f"{what}: `{var}` reaches only the scoped parse entry points / label tests",
                          f"a looked-up argument tree is consumed outside the scoped entry points: {bad[:3]}")
                continue
            rep.bad("C13.g", q, what, f"unrecognised use of a looked-up argument tree: `{ast.unparse(par)[:80]}`")
    if n < 5:
        raise AnalysisError(f"C13.g: only {n} lookups of match/expr arguments found (floor 5)")


def _following_loads(model, stmt, fdef, var):
    """Loads of `var` in statements executed after `stmt` (its later siblings and those of its enclosing statements), up to a re-assignment."""
    out = []
    node = stmt
    while node is not fdef and node in model.parents:
        parent = model.parents[node]
        for fld in ("body", "orelse", "finalbody", "handlers"):
            lst = getattr(parent, fld, None)
            if isinstance(lst, list) and node in lst:
                for st in lst[lst.index(node) + 1:]:
                    if isinstance(st, ast.Assign) and any(isinstance(t, ast.Name) and t.id == var for t in st.targets):
                        break
                    out += [u for u in ast.walk(st) if isinstance(u, ast.Name) and u.id == var and isinstance(u.ctx, ast.Load)]
                    if isinstance(st, (ast.Return, ast.Raise)):
                        return out        # nothing after it runs on this path
                else:
                    continue
                return out
        node = parent
    return out


_run_g0 = run


def run(ctx, rep, tier):
    _run_g0(ctx, rep, tier)
    _call_site_scope(ctx, rep, tier)


_run_i13 = run


def run(ctx, rep, tier):
    _run_i13(ctx, rep, tier)
    from .shared import delegate
    delegate(ctx, rep, tier, "C15", ("C15.p",), "C13.i", "the body of a macro means the same at every call and an argument at every use: parsing never modifies the parse tree it reads")
