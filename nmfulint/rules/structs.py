"""Structural rules that are necessary conditions of several properties (reported by each under its own rule id)."""
import ast, re
from ..core import AnalysisError
from ..srcmodel import walk_no_nested, strip_doc


def _init_fields(model, cls):
    """fields assigned at the top level of cls.__init__ (through super().__init__ as well): name -> (value node, owner class)"""
    out = {}
    for c in reversed(model.mro(cls)):
        ci = model.classes.get(c)
        if not ci or "__init__" not in ci.methods:
            continue
        for st in ci.methods["__init__"].body:
            if isinstance(st, ast.Assign) and len(st.targets) == 1:
                t = st.targets[0]
                if isinstance(t, ast.Attribute) and isinstance(t.value, ast.Name) and t.value.id == "self":
                    out[t.attr] = (st.value, c)
    return out


def check_copy_complete(ctx, rep, rule):
    """A `copy()` method must give the new object every field the constructor establishes - either by assigning it, or through a
    constructor argument that the constructor stores in that field - and must not share mutable containers with the original."""
    model = ctx.model
    rep.rule(rule, "copy() methods reproduce every field their constructor establishes (directly or through a constructor argument) and do not alias mutable containers")
    n = 0
    for cn, ci in model.classes.items():
        f = ci.methods.get("copy")
        if f is None:
            continue
        n += 1
        fields = _init_fields(model, cn)
        body = strip_doc(f.body)
        made = next((st for st in body if isinstance(st, ast.Assign) and isinstance(st.value, ast.Call) and isinstance(st.value.func, ast.Name) and st.value.func.id in model.classes), None)
        if made is None or not isinstance(made.targets[0], ast.Name):
            rep.bad(rule, f"{cn}.copy", "construction", "copy() does not start by constructing a new object of a known class")
            continue
        var = made.targets[0].id
        ctor_cls = made.value.func.id
        init = model.resolve_method(ctor_cls, "__init__")[1]
        covered = {}
        # through constructor arguments: parameter p is stored as self.<field> = p (possibly after normalising p)
        if init is not None:
            params = [a.arg for a in init.args.args[1:]]
            bound = {}
            for i, a in enumerate(made.value.args):
                if i < len(params):
                    bound[params[i]] = a
            for k in made.value.keywords:
                if k.arg:
                    bound[k.arg] = k.value
            for fld, (val, _) in _init_fields(model, ctor_cls).items():
                if isinstance(val, ast.Name) and val.id in bound:
                    covered[fld] = bound[val.id]
        for st in body:
            if isinstance(st, ast.Assign) and len(st.targets) == 1:
                t = st.targets[0]
                if isinstance(t, ast.Attribute) and isinstance(t.value, ast.Name) and t.value.id == var:
                    covered[t.attr] = st.value
        for fld, (val, owner) in sorted(fields.items()):
            if fld not in covered:
                rep.bad(rule, f"{cn}.copy", f"field {fld}", f"{cn}.copy() does not carry over `{fld}` (established by {owner}.__init__): the copy silently gets the constructor default "
                        "(e.g. a copied fall-through transition that consumes its byte)")
                continue
            src = ast.unparse(covered[fld])
            ok_src = re.fullmatch(r"(self\.%s(\.copy\(\))?|list\(self\.%s\)|set\(self\.%s\))" % (fld, fld, fld), src) is not None
            mutable = isinstance(val, (ast.List, ast.Dict, ast.Set)) or (isinstance(val, ast.Call) and ast.unparse(val.func) in ("list", "set", "dict")) or fld in ("on_values", "actions")
            if not ok_src:
                rep.bad(rule, f"{cn}.copy", f"field {fld}", f"{cn}.copy() sets `{fld}` from `{src}`, not from the original's `{fld}`")
            elif mutable and src == f"self.{fld}":
                rep.bad(rule, f"{cn}.copy", f"field {fld}", f"{cn}.copy() shares the mutable `{fld}` with the original: attaching to the copy changes the original")
            else:
                rep.ok(rule, f"{cn}.copy", f"field {fld} carried over ({src})")
    if n < 1:
        raise AnalysisError(f"{rule}: no copy() method found (anchor: DFTransition.copy)")


def check_cull_policy(ctx, rep, rule):
    """DFA.append_after: an error-handling transition of the chained machine gives way, symbol by symbol, only to an existing *valid*
    transition of the end state - the replacement policy of the same function replaces existing error-handling transitions, so the culling
    test must not remove symbols whose present transition is itself an error path (the chained handler would never be installed there)."""
    model = ctx.model
    rep.rule(rule, "append_after: chained error-handling transitions are culled only on symbols that already have a valid (non-error) transition; existing error paths are replaced (policy and cull test agree)")
    fq = "DFA.append_after"
    fn = model.func(fq)
    arms = [n for n in walk_no_nested(fn) if isinstance(n, ast.If) and re.fullmatch(r"\w+\.error_handling", ast.unparse(n.test)) and any(isinstance(x, ast.For) for x in n.body)]
    cull = None
    for a in arms:
        for lp in [x for x in a.body if isinstance(x, ast.For)]:
            for st in lp.body:
                if isinstance(st, ast.If) and any(isinstance(c, ast.Call) and isinstance(c.func, ast.Attribute) and c.func.attr in ("remove", "discard") for c in ast.walk(st)):
                    cull = (lp, st)
    if cull is None:
        raise AnalysisError(f"{rule}: culling loop of error-handling chained transitions not found in append_after")
    lp, st = cull
    v = ast.unparse(lp.target)
    conj = [ast.unparse(x) for x in st.test.values] if isinstance(st.test, ast.BoolOp) and isinstance(st.test.op, ast.And) else [ast.unparse(st.test)]
    m = [re.fullmatch(r"(\w+)\[%s\] is not None" % re.escape(v), c) for c in conj]
    recv = next((x.group(1) for x in m if x), None)
    ok = recv is not None and f"not {recv}[{v}].error_handling" in conj and len(conj) == 2
    rep.check(ok, rule, fq, f"cull test: {recv}[{v}] exists and is not an error path", f"cull test is `{ast.unparse(st.test)}`: symbols whose present transition is an error path are culled too, so the "
              "chained handler (e.g. a wait's restart edge, an else branch) is not installed on them and the old handler still fires")
    pol = [k.value for c in ast.walk(fn) if isinstance(c, ast.Call) for k in c.keywords if k.arg == "allow_replace_if"]
    okp = len(pol) == 1 and isinstance(pol[0], ast.Lambda) and re.fullmatch(r"(\w+)\.error_handling or \1\.target in valid_replacers", ast.unparse(pol[0].body)) is not None
    rep.check(okp, rule, fq, "replacement policy: existing error paths and same-target transitions may be replaced", "replacement policy of append_after changed: re-derive the agreement with the cull test")
    # order of installation: the chained start's Else transitions first, its explicit ones after - an explicit no-match entry (the `{excluded bytes, End}` of a wildcard) installed
    # first would be folded into the end state's own Else edge (same target / flags) by DFState.transition and then replaced by the chained Else
    first = model.find(fq, "chained_transitions = [x for x in chained_dfa.starting_state.transitions if DFTransition.Else in x.on_values]")
    then = model.find(fq, "chained_transitions.extend((x for x in chained_dfa.starting_state.transitions if DFTransition.Else not in x.on_values))")
    rep.check(bool(first) and bool(then) and first[0][0].lineno < then[0][0].lineno, rule, fq, "chained Else transitions are installed before the explicit ones",
              "the chained start's explicit transitions are installed before its Else: the explicit End / excluded-byte entry of a wildcard is folded into the end state's Else edge and then replaced - "
              "`\"a\"; optional { \"b\"; } /[^b]/;` lets end() follow the wildcard")
