"""C01 - accepted programs behave as their procedural reading prescribes (DESIGN.md section 3, C01)."""
import ast, re
from ..core import AnalysisError
from ..srcmodel import walk_no_nested, calls_in, strip_doc, raised_class
from ..dispatch import dispatch_on, block_leaves
from ..builders import chains_in, parse_chain
from ..guards import check_refusal, find_ifs, arm_refuses
from ..cevents import events_of
from ..tmpl import action_contexts, feasible_action_path

EXPLANATION = (
    "The whole property is the correctness of a compiler whose core is data-dependent graph surgery (append_after, "
    "_merge, action adoption); it is NOT decided statically. Decided structural clauses, each a necessary condition: "
    "C01.a statement totality - the statement labels of the grammar equal those handled by _parse_stmt, every arm returns "
    "a node, the residual raises a diagnosed error, every concrete Node/Match class implements convert/set_next/get_next. "
    "C01.b handler-map threading at conversion - every child conversion receives the caller's handler map unchanged, with "
    "the single exception that a try body gets the extended copy; the root map yields the generic fail state. C01.c "
    "handler-map scoping at parse time (save copy / extend / body / restore / catch). C01.d mismatches are non-consuming "
    "and marked: every transition built towards the no-match handler is a fallthrough marked as error path. C01.e "
    "exactly-once discipline: every action class whose template has an effect that must not be repeated (hook call, "
    "append, return, jump) is timing-strict; the three multi-attach sites refuse strict actions they cannot schedule once. "
    "C01.f break agreement between LoopNode.convert, BreakAction's declared target and its C template. C01.g literal "
    "matches place start / per-character / finish actions on the first / every / last transition. C01.h statements are "
    "linked in program order.")
NOT_DECIDED = ("that concatenation, case merging, optional/loop closure and action adoption place actions on the right transitions for every program; values of "
               "outputs; order of actions across nodes: these need the compiled machine and are out of reach of this technique family")
ENGINES = ["E1 source model", "E2 grammar model", "E3 dispatch", "builder-chain recogniser", "refusal-guard recogniser", "E5/E6 action templates"]

HANDLER_IDIOMS = ("{p}", "{p}.copy()", "dict({p})", "{{**{p}}}")


def _loop_names_are_scoped(ctx, rep):
    """C01.v (F-107): the table of named break targets is dynamic scope. Statements are parsed back to front (C01.h), so whatever a loop leaves in the table after its body
    has been parsed is seen by the statements IN FRONT of it; and a nested loop that overwrites an enclosing loop's entry without putting it back keeps hiding it. Every store
    into the table that is followed by the parsing of a nested statement sequence must be undone after it: the saved entry restored, or the key removed."""
    model = ctx.model
    rep.rule("C01.v", "named break targets: an entry made for a loop is undone once the loop's body has been parsed (restored to the enclosing loop's, or removed)")
    f = model.func("ParseCtx._parse_stmt")
    n = 0
    for st in ast.walk(f):
        if not (isinstance(st, ast.Assign) and isinstance(st.targets[0], ast.Subscript) and ast.unparse(st.targets[0].value) == "self.break_handlers"):
            continue
        blk = model.parents.get(st)
        seq = next((getattr(blk, fl) for fl in ("body", "orelse") if isinstance(getattr(blk, fl, None), list) and st in getattr(blk, fl)), None)
        if seq is None:
            continue
        key = ast.unparse(st.targets[0].slice)
        after = seq[seq.index(st) + 1:]
        i_parse = next((i for i, x in enumerate(after) if "_parse_stmt_seq(" in ast.unparse(x)), None)
        if i_parse is None:
            continue      # a restoring store
        n += 1
        undo = after[i_parse + 1:]

        def undoes(x):
            t = ast.unparse(x)
            return t.startswith(f"self.break_handlers[{key}] = ") or t in (f"self.break_handlers.pop({key}, None)", f"del self.break_handlers[{key}]")
        ok = any(undoes(x) for x in undo) or any(isinstance(x, ast.If) and x.orelse and any(undoes(y) for y in x.body) and any(undoes(y) for y in x.orelse) for x in undo)
        saved = any(isinstance(x, ast.Assign) and ast.unparse(x.value) in (f"self.break_handlers.get({key})", f"self.break_handlers[{key}]") for x in seq[:seq.index(st)])
        rep.check(ok and saved, "C01.v", "ParseCtx._parse_stmt", f"self.break_handlers[{key}]: saved before, undone after the body on every path",
                  f"the entry `self.break_handlers[{key}]` made for a loop stays in the table after its body has been parsed (or the enclosing loop's entry is not put back): a `break a` in front of "
                  "an inner `loop a` leaves through that not yet entered loop instead of the enclosing `loop a`, and `break foo` in front of `loop foo` is accepted outside any such loop",
                  line=st.lineno)
    rep.check(n >= 1, "C01.v", "ParseCtx._parse_stmt", f"{n} scoping store(s) of named break targets examined", "the store of a loop's named break target was not found")


def _start_state_path(ctx, rep):
    """C01.s / C01.t (F-87, F-88). chain_actions_into puts actions on the transitions ENTERING its target states. Two situations have no such transition to use:
    (s) the machine's own starting state - nothing points at it until the machine is joined to what precedes it - which is an end state exactly when the construct can
        end where it starts (a skipped optional): every call of chain_actions_into must exclude the starting state and route it through append_action_step;
    (t) at a join, chain actions that may send the machine elsewhere (break under an if, finish, overflowing append) must not be copied onto the transitions that consume
        the next statement's first byte: they get a step of their own in front of it."""
    model = ctx.model
    rep.rule("C01.s", "actions chained at end states reach the path through the machine's own starting state: it is excluded from chain_actions_into and given a step of its own")
    step = model.functions.get("DFA.append_action_step")
    n = 0
    for q in ("DFA.chain_actions_at_end", "DFA.append_after"):
        f = model.func(q)
        for c in ast.walk(f):
            if isinstance(c, ast.Call) and ast.unparse(c.func) == "self.chain_actions_into" and len(c.args) == 2:
                n += 1
                tgt = ast.unparse(c.args[1])
                m = re.fullmatch(r"\[(\w+) for \1 in ([\w.]+) if \1 is not self\.starting_state\]", tgt)
                m2 = re.fullmatch(r"\[(\w+) for \1 in ([\w.]+) if \1 not in (\w+)\]", tgt)
                if m is None and m2 is not None:
                    # generalised form (F-113): the states entered without taking a transition = the starting state and every state an action jumps to
                    excl = m2.group(3)
                    defn = next((ast.unparse(a.value) for a in ast.walk(f) if isinstance(a, ast.Assign) and ast.unparse(a.targets[0]) == excl), "")
                    jt = next((ast.unparse(a.value) for a in ast.walk(f) if isinstance(a, ast.Assign) and ast.unparse(a.targets[0]) == "jumped_to"), "")
                    ok2 = defn in (f"[x for x in {m2.group(2)} if x is self.starting_state or x in jumped_to]",
                                   # F-114: ... and a state that goes on matching is not left for good when it is entered either
                                   f"[x for x in {m2.group(2)} if x is self.starting_state or x in jumped_to or any((not t.error_handling for t in x.transitions))]") and \
                        jt == "set((target for transition in self.all_transitions() for action in transition.actions for sub in action.all_subactions() for target in sub.get_target_override_targets()))" and \
                        step is not None and any(isinstance(i, ast.If) and ast.unparse(i.test) in (excl, f"{ast.unparse(c.args[0])} and {excl}") and
                                                 any(isinstance(x, ast.Call) and ast.unparse(x.func) == "self.append_action_step" and [ast.unparse(y) for y in x.args] == [ast.unparse(c.args[0]), excl]
                                                     for x in ast.walk(i)) for i in ast.walk(f))
                    rep.check(ok2, "C01.s", q, f"chain_actions_into({ast.unparse(c.args[0])}, ..): the starting state and every state an action jumps to are excluded and given a step",
                              f"`{ast.unparse(c)[:110]}`: the set of states entered without taking a transition (the machine's starting state; the handler an overflowing append leaves for) is not "
                              "excluded / not given the action step: the first actions of `catch (outofspace) { n = 7; caught(); /b*/; }` are skipped when the append overflows", line=c.lineno)
                    continue
                if m is not None and q == "DFA.chain_actions_at_end":
                    # F-119: the end of a machine is entered by jumps as well (the end of a loop left by a break under an if)
                    rep.bad("C01.s", q, "chain_actions_into at the end of a machine: states an action jumps to are excluded and given a step",
                            f"`{ast.unparse(c)[:110]}` only sets the machine's own starting state aside: an accepting state that is entered by an action's stored state (the end of a loop "
                            "left by a break under an if) has no entering transition to carry the actions either - `try { loop { \"a\"; if x == 1 { break; } x = [x + 1]; } } catch { \"e\"; } "
                            "y = 7; hk();` leaves y = 0 and never calls hk on \"aa\"", line=c.lineno)
                    continue
                routed = m is not None and step is not None and any(
                    isinstance(i, ast.If) and ast.unparse(i.test).endswith(f"self.starting_state in {m.group(2)}") and
                    any(isinstance(x, ast.Call) and ast.unparse(x.func) == "self.append_action_step" and len(x.args) == 2 and ast.unparse(x.args[1]) == "[self.starting_state]" and
                        ast.unparse(x.args[0]) == ast.unparse(c.args[0]) for x in ast.walk(i))
                    for i in ast.walk(f))
                rep.check(routed, "C01.s", q, f"chain_actions_into({ast.unparse(c.args[0])}, {tgt[:60]}): starting state excluded and given a step",
                          f"`{ast.unparse(c)[:110]}` may be handed the machine's own starting state (an end state when the construct can end where it starts: a skipped optional). Nothing points at it "
                          "yet, so nothing is attached and nothing is reported: `\"a\"; optional { \"b\"; } x = 5;` leaves x at 0 on \"a\"; a hook / break / counter behind an optional that ends "
                          "its block is lost when it is skipped", line=c.lineno)
    rep.check(n >= 2, "C01.s", "DFA", f"{n} chain_actions_into call sites examined", "chain_actions_into call sites not found")
    if step is not None:
        ok = model.has("DFA.append_action_step", "entry.transition(DFTransition([DFTransition.Else], fallthrough=True).to(performed).attach(*actions).handles_else())") and \
            model.has("DFA.append_action_step", "step.mark_accepting(performed)") and \
            model.has("DFA.append_action_step", "self.append_after(step, sub_states=sub_states)\nfor sub_state in sub_states:\n    for transition in sub_state.transitions:\n        if transition.target is performed:\n            transition.handles_else(False)\nreturn performed")
        rep.check(ok, "C01.s", "DFA.append_action_step", "step = non-consuming Else carrying the actions; joined like an error path (takes only what the state does not handle validly), ordinary afterwards",
                  "the action step changed: it must carry the actions on a fall-through Else, be culled like an error path when joined (else it conflicts with / shadows what the state continues with), "
                  "and lose the error mark afterwards (else the state counts as finished: immediate DONE, end() ignoring it)")
    rep.rule("C01.u", "the finish actions of an expression that can match nothing are also performed on that path (a step behind its starting state)")
    rc = model.func("RegexMatch.convert")
    oku = model.has("RegexMatch.convert", "if self.finish_actions and out_dfa.starting_state in out_dfa.accepting_states:\n    out_dfa.append_action_step(self.finish_actions, [out_dfa.starting_state])")
    body_u = strip_doc(rc.body)
    i_build = next((i for i, st in enumerate(body_u) if "_create_dfa_state(" in ast.unparse(st)), None)
    i_step = next((i for i, st in enumerate(body_u) if "append_action_step(" in ast.unparse(st)), None)
    rep.check(oku and i_build is not None and i_step is not None and i_build < i_step, "C01.u", "RegexMatch.convert", "nullable expression: finish actions get a step behind the starting state",
              "the finish actions of a regex sit on the transitions entering a finishing state; when the regex matches the empty string none is taken and nothing else performs them: "
              "`\"a\"; /c*/; x = 3; \"!\";` leaves x at 0 on \"a!\"", line=rc.lineno)
    rep.rule("C01.t", "chain actions that may send the machine elsewhere are not copied onto the consuming transitions of the following statement: they get a step in front of it")
    aa = model.func("DFA.append_after")
    body = strip_doc(aa.body)
    gate = [i for i, st in enumerate(body) if isinstance(st, ast.If) and
            re.fullmatch(r"any\(\((\w+)\.get_target_override_mode\(\) != ActionOverrideMode\.NONE for (\w+) in chain_actions for \1 in \2\.all_subactions\(\)\)\)", ast.unparse(st.test))]
    attach = [i for i, st in enumerate(body) if "culled_transition.attach(*chain_actions" in ast.unparse(st)]
    okg = len(gate) == 1 and attach and gate[0] < attach[0] and [ast.unparse(x) for x in body[gate[0]].body] == ["sub_states = [self.append_action_step(chain_actions, sub_states)]", "chain_actions = []"]
    rep.check(bool(okg), "C01.t", "DFA.append_after", "override-capable chain actions are routed through append_action_step before the join transitions are built",
              "chain actions are prepended to copies of the transitions that consume the next statement's first byte whatever they do: a conditional break / finish chained after an optional, if, "
              "try, foreach or case is only evaluated on bytes that start the next statement, and when it fires that byte is consumed with it - "
              "`optional { \"c\"; } loop { if stop { break; } \"ab\"; } left(); \"!\";` fails on \"!\" and accepts \"a!\"", line=aa.lineno)


def run(ctx, rep, tier):
    model, g, E = ctx.model, ctx.grammar, ctx.emit
    consts = ctx.module_str_lists()

    # ------------------------------------------------------------------ C01.a statement totality
    rep.rule("C01.a", "statement labels of the grammar = labels handled by _parse_stmt; arms return nodes; residual raises; node classes complete")
    ps = model.func("ParseCtx._parse_stmt")
    d = dispatch_on(ps.body, "stmt.data", consts)
    labels = g.labels("statement")
    handled = d.handled()
    rep.check(handled == labels, "C01.a", "ParseCtx._parse_stmt", f"handles exactly the {len(labels)} statement labels",
              f"grammar statement labels {sorted(labels - handled)} unhandled / {sorted(handled - labels)} not in the grammar")
    rep.check(d.residual == ("raise", "IllegalParseTree"), "C01.a", "ParseCtx._parse_stmt", "residual arm raises IllegalParseTree", f"residual arm is {d.residual}")
    for labs, body, test in d.arms:
        rep.check(block_leaves(body), "C01.a", "ParseCtx._parse_stmt", f"arm {sorted(labs)[0]} returns a node on every path", f"arm for {sorted(labs)} can fall off its end (returns None)")
    if len(labels) < 17:
        raise AnalysisError(f"only {len(labels)} statement labels in the grammar (floor 17)")
    for base, floor in (("Node", 9), ("Match", 7)):
        subs = [c for c in model.concrete_subclasses(base) if c != base]
        for c in model.subclasses(base, include_self=False):
            inst = any(isinstance(n, ast.Call) and isinstance(n.func, ast.Name) and n.func.id == c for f in model.functions.values() for n in ast.walk(f))
            if not inst:
                continue
            for m in (("convert", "set_next", "get_next") if base == "Node" else ("convert", "attach")):
                o, f = model.resolve_method(c, m)
                abstract = f is None or m in model.classes[o].abstract
                rep.check(not abstract, "C01.a", f"{c}.{m}", "implemented", f"{c} is constructed but {m} resolves to an abstract method ({o})")
        if len(subs) < floor:
            raise AnalysisError(f"only {len(subs)} concrete {base} classes (floor {floor})")

    # ------------------------------------------------------------------ C01.b handler-map threading
    rep.rule("C01.b", "every child conversion passes the caller's handler map unchanged; only a try body gets the extended copy; the root map defaults to the generic fail state")
    n_sites = 0
    for q, f in model.functions.items():
        if not q.endswith(".convert") or len(f.args.args) < 2 or f.args.args[1].arg.startswith("*"):
            continue
        if f.args.vararg is not None and len(f.args.args) < 2:
            continue
        p = f.args.args[1].arg
        if p == "args":
            continue
        for c in calls_in(f, nested=True):
            if isinstance(c.func, ast.Attribute) and c.func.attr == "convert" and c.args:
                arg = ast.unparse(c.args[0])
                recv = ast.unparse(c.func.value)
                n_sites += 1
                allowed = {i.format(p=p) for i in HANDLER_IDIOMS}
                if q == "TryExceptNode.convert" and recv == "self.body":
                    continue   # the one exception: checked under C04.c / below
                rep.check(arg in allowed, "C01.b", q, f"{recv}.convert({arg})",
                          f"child `{recv}` is converted with `{arg}`, not the caller's handler map `{p}`: its mismatches go to the wrong handler", line=c.lineno)
    if n_sites < 21:
        raise AnalysisError(f"C01.b: only {n_sites} child conversion sites (floor 21)")
    tc = ast.unparse(model.func("TryExceptNode.convert"))
    rep.check(model.has("TryExceptNode.convert", "body_error_handlers = current_error_handlers.copy()") and model.has("TryExceptNode.convert", "body_error_handlers.update({x: self.handler_node for x in self.handles})") and
              model.has("TryExceptNode.convert", "self.body.convert(body_error_handlers)"), "C01.b", "TryExceptNode.convert", "try body: copy of the caller's map extended by the handled reasons", "try body handler map changed")
    rep.check(model.has("TryExceptNode.convert", "sub_dfa.append_after(handler_dfa, sub_states=[self.handler_node], chain_actions=self.incoming_handler_actions)"), "C01.b", "TryExceptNode.convert",
              "catch block starts at the handler node", "handler attachment changed")
    cp = ast.unparse(model.func("DfaCompileCtx.compile"))
    rep.check(model.has("DfaCompileCtx.compile", "self.dfa = self.ast.convert(defaultdict(lambda: self.generic_fail_state))") and model.has("DfaCompileCtx.compile", "self.dfa.add(self.generic_fail_state)"), "C01.b", "DfaCompileCtx.compile",
              "root handler map: every reason -> the generic fail state", "root handler map changed: an unhandled mismatch no longer produces FAIL")
    pc = ast.unparse(model.func("ParseCtx.__init__"))
    rep.check(model.has("ParseCtx.__init__", "self.exception_handlers = defaultdict(lambda: self.generic_fail_state)"), "C01.b", "ParseCtx.__init__", "parse-time root map -> the same generic fail state", "parse-time root handlers changed")
    dc = ast.unparse(model.func("DfaCompileCtx.__init__"))
    rep.check(model.has("DfaCompileCtx.__init__", "self.generic_fail_state = parse_ctx.generic_fail_state"), "C01.b", "DfaCompileCtx.__init__", "one generic fail state shared by parse and compile stages", "fail state plumbing changed")

    # ------------------------------------------------------------------ C01.c parse-time scoping (shared with C04.c)
    rep.rule("C01.c", "parse time: handler map saved as a copy, extended for the try body only, restored before the catch block is parsed")
    from ..core import Report
    from . import c04
    sub = Report("C04")
    c04._run0(ctx, sub, tier)
    hits = [v for v in sub.violations if v.rule == "C04.c"]
    for v in hits:
        rep.bad("C01.c", v.function, v.construct, v.message, v.extra, v.line)
    if not hits:
        rep.ok("C01.c", "ParseCtx._parse_stmt", "save copy < extend < body < restore < catch block; conversion-time twin holds")

    # ------------------------------------------------------------------ C01.d mismatches non-consuming and marked
    rep.rule("C01.d", "every transition built towards the no-match handler is a fallthrough marked as error path (control transfers AT the offending byte)")
    sites = [("DirectMatch.convert", "current_error_handlers[ErrorReasons.NO_MATCH]"), ("CaseDirectMatch.convert", "current_error_handlers[ErrorReasons.NO_MATCH]"),
             ("EndMatch.convert", "current_error_handlers[ErrorReasons.NO_MATCH]"), ("CaseNode._merge", "error_handling_state")]
    n_d = 0
    for q, h in sites:
        chs = [c for c in chains_in(model.func(q)) if c.to == h]
        for c in chs:
            n_d += 1
            rep.check(c.fallthrough == "True" and c.handles_else == "True", "C01.d", q, f"-> {h}: fallthrough + error mark",
                      f"transition to the no-match handler is built with fallthrough={c.fallthrough}, handles_else={c.handles_else}: the offending byte is consumed / the path is not an error path",
                      line=c.lineno)
        if not chs:
            rep.bad("C01.d", q, f"-> {h}", "no transition to the no-match handler is built here any more")
    cds = model.func("RegexMatch._create_dfa_state")
    chs = [c for c in chains_in(cds) if c.root_is_ctor and c.to == "target"]
    ok = len(chs) == 1 and chs[0].fallthrough == "target == else_path" and chs[0].handles_else == "target == else_path"
    n_d += 1
    rep.check(ok, "C01.d", "RegexMatch._create_dfa_state", "regex: fallthrough and error mark exactly when the target is the no-match path", f"regex transitions built as {chs}")
    rc = ast.unparse(model.func("RegexMatch.convert"))
    rep.check(model.has("RegexMatch.convert", "self._create_dfa_state(self.dfa_2.start_state, out_dfa, True, current_error_handlers[ErrorReasons.NO_MATCH])"), "C01.d", "RegexMatch.convert",
              "regex no-match path = the caller's no-match handler", "regex else path changed")
    if n_d < 5:
        raise AnalysisError("C01.d: fewer than 5 no-match construction sites")

    # ------------------------------------------------------------------ C01.e exactly-once discipline
    rep.rule("C01.e", "action classes with non-repeatable effects are timing-strict; the three multi-attach sites refuse strict actions they cannot schedule exactly once")
    actx = action_contexts(ctx)
    for cl in [c for c in model.concrete_subclasses("Action") if c != "Action"]:
        fp = E.enumerate("CodegenCtx._generate_action_implementation", classes={"action": cl})
        effect = None
        for p in fp.paths:
            if p.end and p.end[0] == "raise":
                continue
            for e in events_of(fp.lines(p)):
                if e.kind in ("HOOKCALL", "RET", "GOTO") or (e.kind == "WRITE" and e.b == "counter++"):
                    effect = e.kind
        o, cst = model.const_return(cl, "is_timing_strict")
        declared = cst.value if isinstance(cst, ast.Constant) else None
        if cl == "ConditionalAction":
            src = ast.unparse(model.func("ConditionalAction.is_timing_strict"))
            rep.check(model.has("ConditionalAction.is_timing_strict", "return any((x.is_timing_strict() for x in itertools.chain(*self.sub_actions.values())))") and model.has("ConditionalAction.is_timing_strict", "potential in child.accesses()"), "C01.e",
                      "ConditionalAction.is_timing_strict", "strict if any sub-action is, or if a sub-action writes what its condition reads", "conditional-action strictness changed")
            continue
        if effect is not None:
            rep.check(declared is True, "C01.e", f"{cl}.is_timing_strict", f"{cl}: template has a non-repeatable effect ({effect}) -> strict",
                      f"{cl}'s template performs {effect} but is_timing_strict() (resolved in {o}) is not constant True: the scheduler may attach it to several transitions and run it twice")
        elif cl == "SetTo":
            src = ast.unparse(model.func("SetTo.is_timing_strict"))
            rep.check(model.has("SetTo.is_timing_strict", "return any((self.into_storage in x.accesses() for x in self.value_expr.all_children()))"), "C01.e", "SetTo.is_timing_strict",
                      "strict exactly when the value expression reads the assigned output", "self-referential assignment is no longer strict")
        else:
            rep.ok("C01.e", f"{cl}.is_timing_strict", f"{cl}: idempotent template, strictness {declared}", nontrivial=False)
    # the three sites that replicate a list of finish actions over several transitions judge the list *as a group* (C01.l) and refuse
    GROUP = "timing_strict_actions"
    sites = [
        ("DFA.chain_actions_into", r"^action in strict_actions and any\(\(?not x\.error_handling for x in finish\.transitions\)?\)$", "strict_actions = timing_strict_actions(actions)",
         "chaining a strict action into a re-entrant state is refused", "a strict action chained onto several incoming transitions of a state that can be re-entered runs more than once"),
        ("RegexMatch.convert", r"^strict_actions and any\(\(?x\.transitions for x in self\.dfa_2\.finishing_states\)?\)$", "strict_actions = timing_strict_actions(self.finish_actions)",
         "strict finish action on an open-ended regex is refused", "a strict finish action on a regex whose end states continue would run once per extra byte"),
        # (`!= 1` while every finish state was attached on entry; `> 1` since only the states the decider is left for good in are - there may be none: C08.f)
        ("CaseNode.convert", r"^len\(all_transitions_empty\) (!= 1|> 1) and strict_actions$", "strict_actions = timing_strict_actions(self.case_match_actions[true_backref])",
         "strict action of an action-only clause reached by several transitions is refused", "a strict action-only clause attached to several transitions runs more than once"),
    ]
    for fq, rx, assign, what, msg in sites:
        gs = check_refusal(rep, model, "C01.e", fq, rx, what, msg)
        hits = model.find(fq, assign)
        rep.check(bool(hits) and bool(gs) and all(h[0].lineno < g.lineno for h in hits for g in gs), "C01.l", fq, f"the refused set is computed from the whole group: {assign}",
                  f"{fq.split('.')[-1]} judges each action in isolation (or not from the list it replicates): a group in which a later action overwrites what an earlier one reads is "
                  "repeated once per entering transition (`s += /x+/; n = [s.len]; delete s;` leaves n = 1 for \"xxx\")")
    fn = model.func("DFA.chain_actions_into")
    g1 = find_ifs(fn, r"strict_actions|is_timing_strict")
    if g1:
        rep.check(bool(g1[0].orelse) and "trans.attach(action)" in ast.unparse(g1[0].orelse[0]), "C01.e", "DFA.chain_actions_into", "otherwise the action is attached (appended) to the incoming transition",
                  "non-strict attach arm changed")
    cai = model.func("DFA.chain_actions_into")
    shape = model.has("DFA.chain_actions_into", "for finish in target_states:\n    for incoming, trans in self.transitions_pointing_to(finish, include_states=True):\n        for action in actions:\n            ...")
    escapes = [n for n in ast.walk(cai) if isinstance(n, (ast.Continue, ast.Break, ast.Return))]
    rep.check(shape and not escapes, "C01.r", "DFA.chain_actions_into", "every action goes onto every transition entering every target state (no filter, no early exit)",
              "chain_actions_into skips some entering transitions: the statements chained after a construct are lost on those paths (e.g. `try { \"ab\"; yield A; } catch { .. } finish F;` - "
              "the yield path ends with plain DONE instead of FINISH_F)")
    rep.check(model.has("DFA.chain_actions_into", "actions = list(actions)\nstrict_actions = timing_strict_actions(actions)"), "C01.l", "DFA.chain_actions_into",
              "the action iterable is materialised before it is judged and replicated", "an iterator consumed by the group test leaves nothing to attach")
    raised = ast.unparse(model.func("DFA.chain_actions_into")) + ast.unparse(model.func("RegexMatch.convert")) + ast.unparse(model.func("CaseNode.convert"))
    rep.check(raised.count("raise UnableToScheduleActionError(") == 3, "C01.e", "UnableToScheduleActionError", "raised at the three multi-attach sites", "scheduling refusals changed")

    # ------------------------------------------------------------------ C01.l group strictness
    rep.rule("C01.r", "chained actions reach every path into the states they are chained to")
    rep.rule("C01.l", "a replicated group of finish actions is refused when an action reads an output that it or a later action of the group modifies; reads()/modifies() cover every expression / output of each action class")
    if GROUP not in model.functions:
        rep.bad("C01.l", GROUP, "group strictness", "finish-action groups are judged per action only: write-after-read inside a replicated group is accepted")
    else:
        ok = model.has(GROUP, "for i, action in enumerate(actions):\n    if action.is_timing_strict():\n        strict.append(action)\n        continue\n    ...") and \
            model.has(GROUP, "modified_later = [out for later in actions[i:] for sub in later.all_subactions() for out in sub.modifies()]") and \
            model.has(GROUP, "if any((out in modified_later for out in action.reads())):\n    ...\n    strict.append(action)") and model.has(GROUP, "return strict") and \
            model.has(GROUP, "actions = list(actions)")
        rep.check(ok, "C01.l", GROUP, "strict = individually strict + those reading what they or a later action (sub-actions included) modify", "group strictness computation changed: a write-after-read inside a "
                  "replicated group (later action, or the action itself, modifies what this one reads) must make the reader strict")
    for cl in [c for c in model.concrete_subclasses("Action") if c != "Action"]:
        ci = model.classes[cl]
        init = ci.methods.get("__init__")
        params = {a.arg: (ast.unparse(a.annotation) if a.annotation is not None else "") for a in init.args.args[1:]} if init is not None else {}
        o, cst = model.const_return(cl, "is_timing_strict")
        always = isinstance(cst, ast.Constant) and cst.value is True
        exprs = [pn for pn, an in params.items() if "IntegerExpr" in an or "DFCondition" in an]
        outs = [pn for pn, an in params.items() if "OutputStorage" in an]
        ro, rf = model.resolve_method(cl, "reads")
        if exprs and not always:
            rsrc = ast.unparse(rf) if rf is not None else ""
            if cl == "ConditionalAction":
                okr = ro == cl and model.has("ConditionalAction.reads", "for cond in self.conditions:\n    if isinstance(cond, IntegerCondition):\n        result.extend(cond.expr.accesses())") and \
                    model.has("ConditionalAction.reads", "for act in self.embeds():\n    result.extend(act.reads())") and model.has("ConditionalAction.reads", "return result")
            else:
                okr = ro == cl and all(re.search(r"self\.%s\.accesses\(\)" % re.escape(e), rsrc) for e in exprs)
            rep.check(okr, "C01.l", f"{cl}.reads", f"{cl}: reads() covers {exprs}", f"{cl} evaluates {exprs} but reads() (resolved in {ro}) does not report what they access: the group test cannot see the hazard")
        if outs:
            mo, mf = model.resolve_method(cl, "modifies")
            okm = mf is not None and all(f"self.{o_}" in ast.unparse(mf) for o_ in outs)
            rep.check(okm, "C01.l", f"{cl}.modifies", f"{cl}: modifies() reports {outs}", f"{cl} writes {outs} but modifies() (resolved in {mo}) does not report it")
    # what an expression reads includes what its sub-expressions read (an index, an operand)
    for cl in [c for c in model.concrete_subclasses("IntegerExpr") if c != "IntegerExpr"]:
        init = model.classes[cl].methods.get("__init__")
        if init is None:
            continue
        subs = [a.arg for a in init.args.args[1:] if a.annotation is not None and "IntegerExpr" in ast.unparse(a.annotation) and "List" not in ast.unparse(a.annotation)]
        lists = [a.arg for a in init.args.args[1:] if a.annotation is not None and "List[IntegerExpr]" in ast.unparse(a.annotation)]
        if not subs and not lists:
            continue
        ao, af = model.resolve_method(cl, "accesses")
        asrc = ast.unparse(af) if af is not None else ""
        okx = ao not in (None, "IntegerExpr") and (all(f"self.{x}.accesses()" in asrc for x in subs) if ao == cl else True) and \
            (("for i in self.children" in asrc and "i.accesses()" in asrc) if (lists or ao == "MathIntegerExpr") else True)
        rep.check(okx, "C01.l", f"{cl}.accesses", f"{cl}: accesses() covers its sub-expressions {subs + lists}",
                  f"{cl}.accesses() (resolved in {ao}) leaves out what {subs + lists} read: `c = [s[i]]; i = [0];` after /x+/ is no longer seen as a write-after-read group and is repeated per byte")
    rep.check(model.has("Action.all_subactions", "for i in self.embeds():\n    children.extend(i.all_subactions())") and model.has("ConditionalAction.embeds", "return list(itertools.chain(*self.sub_actions.values()))"),
              "C01.l", "Action.all_subactions", "sub-actions of conditional actions are visible to the group test", "embedded actions are no longer enumerated")

    # ------------------------------------------------------------------ C01.f break agreement
    rep.rule("C01.f", "break: loop conversion reroutes to the loop's end state; BreakAction declares that state; its template runs the after-break actions, then stores that state")
    lc = model.func("LoopNode.convert")
    lsrc = ast.unparse(lc)
    loop = next((n for n in walk_no_nested(lc) if isinstance(n, ast.For) and ast.unparse(n.iter) == "sub_dfa.transitions_that_do(self.break_action)"), None)
    if loop is None:
        rep.bad("C01.f", "LoopNode.convert", "break rerouting loop", "loop over the transitions carrying this loop's break action not found")
    else:
        stm = [ast.unparse(s) for s in loop.body]
        want = ["transition.to(self.end_state)", "del transition.actions[transition.actions.index(self.break_action):]", "transition.actions.extend(self.after_break_actions)", "should_try_to_append = True"]
        rep.check(stm == want, "C01.f", "LoopNode.convert", "reroute to end_state; drop the break AND what stands behind it; append (not prepend) the after-break actions",
                  f"break rerouting is {stm}: the actions behind the break on its transition (statements that follow the breaking clause / try body inside the loop) must go with it - "
                  "`loop { case { \"c\" -> { break; } \"a\" -> {} } y = [y + 1]; \"b\"; }` counts once more on \"c\" (F-83)")
    bret = model.func("BreakAction.get_target_override_targets").body[-1]
    bt = ast.unparse(bret)
    bv = bret.value if isinstance(bret, ast.Return) else None
    # first the loop's end state (simulate() follows element 0); after it, at most the override targets of the actions run on the way out (F-76)
    rest_ok = isinstance(bv, ast.List) and bv.elts and ast.unparse(bv.elts[0]) == "self.refers_to.end_state" and all(
        isinstance(e, ast.Starred) and isinstance(e.value, ast.GeneratorExp) and len(e.value.generators) >= 1
        and ast.unparse(e.value.generators[0].iter) in ("self.embeds()", "self.refers_to.after_break_actions", "self.replacement_actions()")
        and "get_target_override_targets()" in ast.unparse(e.value) for e in bv.elts[1:])
    rep.check(bool(rest_ok), "C01.f", "BreakAction.get_target_override_targets", "declares the loop's end state first (then only targets of the after-break actions)", f"declared targets `{bt}`")
    fp = E.enumerate("CodegenCtx._generate_action_implementation", classes={"action": "BreakAction"})
    for p in fp.paths:
        if p.end and p.end[0] == "raise":
            continue
        evs = [e for e in events_of(fp.lines(p)) if e.kind != "COMMENT"]
        ks = [e.kind for e in evs]
        ok = ks[:2] == ["LOOP", "SETSTATE"] and evs[1].a == "action.refers_to.end_state" and "action.replacement_actions()" in evs[0].a and ks[2] in ("GOTO", "RET") and len(ks) == 3
        rep.check(ok, "C01.f", "CodegenCtx._generate_action_implementation", f"BreakAction template: after-break actions, store end state, leave [{'start' if p.atoms.get('transition is None') else 'feed'}]",
                  f"break template emits {[e.text.strip() for e in evs]}")
    ra = ast.unparse(model.func("BreakAction.replacement_actions").body[-1])
    rep.check(ra == "return self.refers_to.after_break_actions", "C01.f", "BreakAction.replacement_actions", "after-break actions of the loop it refers to", f"`{ra}`")
    rep.check("parent_dfa.add(self.end_state)" in lsrc and "parent_dfa.mark_accepting(self.end_state)" in lsrc and "parent_dfa.append_after(self.next.convert(current_error_handlers))" in lsrc,
              "C01.f", "LoopNode.convert", "what follows the loop is attached at the end state", "loop continuation attachment changed")
    beq = ast.unparse(model.func("BreakAction.__eq__"))
    rep.check(model.has("BreakAction.__eq__", "return o.refers_to == self.refers_to"), "C01.f", "BreakAction.__eq__", "break actions compare by the loop they leave", "break identity changed")
    pb = ast.unparse(ps)
    rep.check("self.break_handlers[loop_name] = loop_node.get_break_handler" in pb and "self.innermost_break_handler = loop_node.get_break_handler" in pb and
              "self.innermost_break_handler = previous_break" in pb, "C01.f", "ParseCtx._parse_stmt", "break targets: named loop / innermost loop, restored after the body", "break target scoping changed")

    rep.check(lsrc.count(".attach(*self.loop_start_actions)") == 2 and "trans.handles_else(False).fallthrough().to(sub_dfa.starting_state).attach(*self.loop_start_actions)" in lsrc and
              "accept_state[DFTransition.Else] = DFTransition(fallthrough=True).to(sub_dfa.starting_state).attach(*self.loop_start_actions)" in lsrc, "C01.f", "LoopNode.convert",
              "both kinds of loop back-edge carry the actions at the top of the loop body", "a loop back-edge no longer runs the statements at the top of the loop body for the next iteration")
    rep.check("return (self.loop_start_actions, self)" in ast.unparse(model.func("LoopNode.adopt_actions_from")), "C01.f", "LoopNode.adopt_actions_from",
              "the first iteration gets the same actions from the preceding node", "loop start action adoption changed")

    rep.check(model.has("LoopNode.convert", "if not any((DFTransition.Else in x.on_values for x in accept_state.transitions)):\n    accept_state[DFTransition.Else] = DFTransition(fallthrough=True).to(sub_dfa.starting_state).attach(*self.loop_start_actions)"),
              "C01.q", "LoopNode.convert", "an end state of the body without an Else transition gets the loop-back Else (not only a state without any transition)",
              "an end state of the loop body that only has transitions continuing its last statement has no loop-back edge: a byte that starts the next iteration matches nothing there, "
              "feed() falls out of the state's switch and returns OK mid-chunk (`loop { greedy case { \"a\" -> {} \"abc\" -> {} \"x\" -> { break; } } }` on \"aabcx\": outcome depends on chunking)")

    # ------------------------------------------------------------------ C01.j foreach
    rep.rule("C01.q", "loop: every end state of the body handles every symbol - what does not continue its last statement loops back")
    rep.rule("C01.j", "foreach: the do-actions are prepended to every consuming transition of the body that does not go to an error handler")
    fe = model.func("ForeachNode.convert")
    skips = [n for n in ast.walk(fe) if isinstance(n, ast.If) and n.body and isinstance(n.body[-1], ast.Continue)]
    tests = sorted(ast.unparse(x.test) for x in skips)
    ok = tests == sorted(["transition.target in ignored_targets or transition.is_fallthrough", "set(transition.on_values) == {DFTransition.End}"])
    rep.check(ok, "C01.j", "ForeachNode.convert", "skips only transitions into error handlers, non-consuming transitions and transitions on end-of-input alone",
              f"foreach skips transitions under `{ast.unparse(skips[0].test) if skips else None}`: some consumed bytes (e.g. bytes skipped by a wait) no longer run the do-actions")
    fsrc = ast.unparse(fe)
    rep.check(("transition.attach(*self.each_actions, prepend=True)" in fsrc or "transition.attach_for_this_byte(*self.each_actions)" in fsrc) and "ignored_targets = set(current_error_handlers.values())" in fsrc
              and "for state in sub_dfa.states:" in fsrc and "for transition in state.all_transitions():" in fsrc, "C01.j", "ForeachNode.convert",
              "each-actions on every remaining transition of every body state", "foreach attachment changed")
    # F-110: WHERE on the transition - behind the actions chained in from statements in front of the byte (they are performed before it is taken) and behind the
    # transition's own appends (a byte that does not fit is handed to the handler, not taken here). The very front of the list is neither.
    afb = model.functions.get("DFTransition.attach_for_this_byte")
    placed = "transition.attach_for_this_byte(*self.each_actions)" in fsrc and afb is not None and \
        model.has("DFTransition.attach_for_this_byte", "position = self.leading_actions\nfor index, action in enumerate(self.actions):\n    if index >= position and isinstance(action, AppendTo):\n        position = index + 1\nself.actions[position:position] = actions") and \
        model.has("DFTransition.attach", "if prepend:\n    self.actions = list(actions) + self.actions\n    self.leading_actions += len(actions)") and \
        model.has("DFTransition.copy", "my_copy.leading_actions = self.leading_actions") and model.has("DFTransition.from_key", "result.leading_actions = inherited.leading_actions")
    rep.check(bool(placed), "C01.j", "ForeachNode.convert", "each-actions stand behind the chained-in actions and behind the byte's own appends",
              "the per-character actions of a foreach are put at the very front of the transition: actions chained in from the statements in front of the byte (`optional { \"b\"; } mid(); \"c\";` "
              "puts mid() on the c transition) see the byte already counted, and an appended byte that does not fit is counted although it is handed to the handler (and counted again there)")
    body = strip_doc(fe.body)
    i_att = next((i for i, st in enumerate(body) if "each_actions" in ast.unparse(st)), None)
    i_next = next((i for i, st in enumerate(body) if "self.next" in ast.unparse(st)), None)
    rep.check(i_att is not None and i_next is not None and i_att < i_next, "C01.j", "ForeachNode.convert", "attached before the continuation is joined (so only the body's bytes count)", "foreach ordering changed")

    # ------------------------------------------------------------------ C01.k chained actions come first
    rep.rule("C01.k", "actions chained at a join (assignments between two statements) run before the following statement's own first-byte actions")
    rep.check(model.has("DFA.append_after", "culled_transition.attach(*chain_actions, prepend=True)"), "C01.k", "DFA.append_after", "chain actions are prepended to the joined transitions",
              "actions chained at a join are appended after the next statement's first-byte actions: an assignment written before a match now sees values the match has already changed")
    emp = [n for n in strip_doc(model.func("DFA.append_after").body) if isinstance(n, ast.If) and ast.unparse(n.test) == "chain_actions and chained_dfa.starting_state in chained_dfa.accepting_states"]
    ok_emp = len(emp) == 1 and any("self.chain_actions_into(chain_actions," in ast.unparse(x) for x in emp[0].body) and ast.unparse(emp[0].body[-1]) == "chain_actions = []"
    rep.check(ok_emp, "C01.k", "DFA.append_after", "if the next statement can match nothing, the actions go onto the transitions entering the join states instead (and are not attached twice)",
              "empty-match chaining changed")
    _start_state_path(ctx, rep)
    _loop_names_are_scoped(ctx, rep)
    for q in ("OptionalNode.convert", "TryExceptNode.convert", "ForeachNode.convert", "IfElseNode.convert"):
        f = model.func(q)
        src = ast.unparse(f)
        attr = {"OptionalNode.convert": "self.finish_actions"}.get(q, "self.after_actions")
        pats = (f"append_after(self.next.convert(current_error_handlers), chain_actions={attr})", f"chain_actions_at_end({attr})")
        rep.check(all(p in src for p in pats), "C01.k", q, "actions following the construct are chained at its end (into the continuation, or at its accepting states)",
                  f"{q} no longer chains {attr} at its end")

    # ------------------------------------------------------------------ C01.g action placement in literal matches
    rep.rule("C01.g", "literal matches: start actions on the first transition (and its mismatch path), per-character actions on every transition, finish actions on the last")
    ma = ast.unparse(model.func("Match.attach"))
    rep.check(model.has("Match.attach", "if action.get_mode() == ActionMode.AT_FINISH:\n        self.finish_actions.append(action)") and model.has("Match.attach", "elif action.get_mode() == ActionMode.EACH_CHARACTER:")
              and model.has("Match.attach", "self.char_actions.append(action)") and model.has("Match.attach", "self.start_actions.append(action)"), "C01.g", "Match.attach", "actions sorted by mode, in attachment order", "Match.attach changed")
    for q, sym in (("DirectMatch.convert", "[character]"), ("CaseDirectMatch.convert", "self._create_casei_from(character)")):
        f = model.func(q)
        src = ast.unparse(f)
        chs = [c for c in chains_in(f) if c.root_is_ctor and c.to == "next_state"]
        ok = len(chs) == 1 and chs[0].on_values == sym and chs[0].attach == [(["*start_action_holder", "*self.char_actions"], "False")] and not chs[0].truthy("fallthrough")
        rep.check(ok, "C01.g", q, "consuming transition: start actions (first only) then per-character actions", f"literal transition built as {chs}")
        rep.check(model.has(q, "start_action_holder = self.start_actions if j == 0 else []"), "C01.g", q, "start actions only on the first character", "start action placement changed")
        rep.check(re.search(r"if j == len\(self\.match_contents\) - 1:\s+t\.attach\(\*self\.finish_actions\)\s+sm\.mark_accepting\(next_state\)", src) is not None, "C01.g", q,
                  "finish actions and acceptance on the last character", "finish action placement changed")
        rep.check(model.has(q, "state = next_state") and model.has(q, "sm.add(next_state)") and model.has(q, "state.transition(t)"), "C01.g", q, "states chained in literal order", "literal state chaining changed")
    cm = ast.unparse(model.func("ConcatMatch.convert"))
    rep.check(model.has("ConcatMatch.convert", "self.sub_matches[0].start_actions.extend(self.start_actions)") and model.has("ConcatMatch.convert", "self.sub_matches[-1].finish_actions.extend(self.finish_actions)") and
              model.has("ConcatMatch.convert", "for i in self.sub_matches[1:]:\n        sm.append_after(i.convert(current_error_handlers))"), "C01.g", "ConcatMatch.convert",
              "concatenation: start actions to the first part, finish actions to the last, parts joined in order", "ConcatMatch.convert changed")

    # ------------------------------------------------------------------ C01.h sequencing
    rep.rule("C01.h", "statements are linked in program order: each node's continuation is the node built from the following statements")
    sq = model.func("ParseCtx._parse_stmt_seq")
    ssrc = ast.unparse(sq)
    rep.check("for stmt in reversed(stmts):" in ssrc and "node.set_next(next_node)" in ssrc and "end_node.set_next(next_node)" in ssrc and "next_node = node" in ssrc and "return next_node" in ssrc,
              "C01.h", "ParseCtx._parse_stmt_seq", "built back to front, each node linked to its successor", "statement sequencing changed")
    mc = ast.unparse(model.func("MatchNode.convert"))
    rep.check(model.has("MatchNode.convert", "base_dfa = self.match.convert(current_error_handlers)") and model.has("MatchNode.convert", "base_dfa.append_after(self.next.convert(current_error_handlers))"), "C01.h", "MatchNode.convert",
              "a match is followed by its continuation", "MatchNode.convert changed")
    an = ast.unparse(model.func("ActionNode.set_next"))
    rep.check(model.has("ActionNode.set_next", "new_actions, self.next = next_node.adopt_actions_from()") and model.has("ActionNode.set_next", "self.actions.extend(new_actions)"), "C01.h", "ActionNode.set_next",
              "adjacent actions are merged in program order (own first, then the following ones)", "action merging order changed")
    sn = ast.unparse(model.func("ActionSinkNode.set_next"))
    rep.check(model.has("ActionSinkNode.set_next", "actions, new_next = next_node.adopt_actions_from()") and model.has("ActionSinkNode.set_next", "self._adopt_actions(actions)") and model.has("ActionSinkNode.set_next", "self._set_next(new_next)"), "C01.h", "ActionSinkNode.set_next",
              "a node adopts the actions that directly follow it", "action adoption changed")
    ia = model.func("InterruptableActionNode.convert")
    isrc = ast.unparse(ia)
    rep.check("start_node[DFTransition.Else].fallthrough().attach(self.important_action)" in isrc and "DFTransition(on_values=[DFTransition.Else]).fallthrough().attach(*self.following_actions)" in isrc
              and "interrupt_node.transition(trans)" in isrc, "C01.h", "InterruptableActionNode.convert", "yield: the interrupting action on one proxy step, the following actions on the next",
              "yield proxy construction changed")


def _shared(ctx, rep, tier):
    """C01.i: the default pipeline includes the optimiser and the delete/assign templates: their necessary conditions (C05.a-c) are
    also necessary for C01 at the optimisation levels that enable them."""
    from ..core import Report
    from . import c05
    rep.rule("C01.i", "optimiser rewrites keep action order / never cross proxies / translate Else by the right states; never bypass accepting states or merge early-leaving actions into a consuming transition; set lookups are exact; `delete` and `s = \"\"` agree (shared with C05.a-c, g-i)")
    sub = Report("C05")
    c05.run(ctx, sub, tier)
    n = 0
    for v in sub.violations:
        if v.rule in ("C05.a", "C05.b", "C05.c", "C05.g", "C05.h", "C05.i"):
            rep.bad("C01.i", v.function, v.construct, v.message, v.extra, v.line)
            n += 1
    if not n:
        rep.ok("C01.i", "DfaCompileCtx._optimize_shortcircuit_fallthroughs", f"{sum(sub.instances.get(r, 0) for r in ('C05.a', 'C05.b', 'C05.c', 'C05.g', 'C05.h', 'C05.i'))} shared instances hold")


_run0 = run


def run(ctx, rep, tier):
    _run0(ctx, rep, tier)
    _shared(ctx, rep, tier)


_run_structs = run


def run(ctx, rep, tier):
    _run_structs(ctx, rep, tier)
    from . import structs
    structs.check_copy_complete(ctx, rep, "C01.m")
    structs.check_cull_policy(ctx, rep, "C01.n")
    from .shared import delegate
    delegate(ctx, rep, tier, "C08", ("C08.c",), "C01.o", "greedy case: the clause that runs is the one of maximal priority, each clause's priority looked up with its own key")
    delegate(ctx, rep, tier, "C05", ("C05.l",), "C01.x", "an overflowing append transfers control to its handler AT the offending byte: the optimiser never puts a yield (early advance) "
             "on a transition with an action that may leave without consuming - the handler would start one byte late")
    delegate(ctx, rep, tier, "C07", ("C07.a",), "C01.y", "each match consumes exactly the bytes it describes: the character-class algebra regexes are split with is exact")


# ---------------------------------------------------------------------------------------------------------------- C01.w
def _containers_adopt_opening_actions(ctx, rep, tier):
    """C01.w (F-112): a try, loop, foreach or action-only if hands the actions that open its body to whatever stands in front of it (`adopt_actions_from`). When such a block
    is the HEAD of a statement sequence, the container that holds the sequence is what stands in front. Every container therefore asks the head it is given for its opening
    actions - a container that merely stores the node loses them silently. Sibling rule: for every attribute a node class converts (`self.<a>.convert(..)` in its
    convert), every method that fills that attribute from a parameter calls `<parameter>.adopt_actions_from()` (under an ActionSourceNode test)."""
    model = ctx.model
    rep.rule("C01.w", "every container asks the head of the statement sequence it is given for its opening actions (adopt_actions_from)")
    n = 0
    for cn, ci in model.classes.items():
        conv = ci.methods.get("convert")
        if conv is None or not model.is_subclass(cn, "Node"):
            continue
        attrs = set()
        for c in ast.walk(conv):
            if isinstance(c, ast.Call) and isinstance(c.func, ast.Attribute) and c.func.attr == "convert" and isinstance(c.func.value, ast.Attribute) and \
                    isinstance(c.func.value.value, ast.Name) and c.func.value.value.id == "self" and c.func.value.attr != "next":
                attrs.add(c.func.value.attr)
        for mn, mf in ci.methods.items():
            # (a parameter declared to be a Match is a pattern, not a statement sequence)
            params = {a.arg for a in mf.args.args[1:] if not (a.annotation is not None and model.is_subclass(ast.unparse(a.annotation).strip("'\""), "Match"))}
            for st in ast.walk(mf):
                if isinstance(st, ast.Assign) and len(st.targets) == 1 and isinstance(st.targets[0], ast.Attribute) and isinstance(st.targets[0].value, ast.Name) and \
                        st.targets[0].value.id == "self" and st.targets[0].attr in attrs and isinstance(st.value, ast.Name) and st.value.id in params:
                    n += 1
                    p = st.value.id
                    adopts = any(isinstance(c, ast.Call) and isinstance(c.func, ast.Attribute) and c.func.attr == "adopt_actions_from" and isinstance(c.func.value, ast.Name) and c.func.value.id == p
                                 for c in ast.walk(mf))
                    rep.check(adopts, "C01.w", f"{cn}.{mn}", f"self.{st.targets[0].attr} = {p}: the head's opening actions are adopted first",
                              f"{cn}.{mn} stores the statement sequence `{p}` without asking it for its opening actions: when the sequence starts with a try / loop / foreach / if, the actions at the "
                              "top of that block are silently dropped (`optional { try { f = true; entered(); \"ba\"; } catch { } }` never sets f)", line=st.lineno)
    rep.check(n >= 4, "C01.w", "Node classes", f"{n} container fill sites examined", "container fill sites not found")


_run_w01 = run


def run(ctx, rep, tier):
    _run_w01(ctx, rep, tier)
    _containers_adopt_opening_actions(ctx, rep, tier)


# ---------------------------------------------------------------------------------------------------------------- C01.z
def _accepting_states_form_a_set(ctx, rep, tier):
    """C01.z (F-122): `accepting_states` is a list used as a set. chain_actions_at_end attaches the trailing actions once per *entry*, and append_after takes a joined
    state off the list with one `.remove`: an entry made twice (the shared body of a case clause with two labels is joined on once per label) runs what follows a block
    twice and leaves the state accepting after the join. Every append to the list is therefore guarded by a membership test on that same list."""
    model = ctx.model
    rep.rule("C01.z", "the list of accepting states has set semantics: every `.accepting_states.append(x)` stands under `if x not in <that list>` - whatever is chained at the "
                      "end of a machine is attached once per accepting state, not once per way the state became one")
    n = 0
    for q, f in model.functions.items():
        for node in ast.walk(f):
            if isinstance(node, ast.Call) and isinstance(node.func, ast.Attribute) and node.func.attr in ("append", "extend", "insert") and \
                    isinstance(node.func.value, ast.Attribute) and node.func.value.attr == "accepting_states" and model.enclosing_function(node) == q:
                n += 1
                lst = ast.unparse(node.func.value)
                arg = ast.unparse(node.args[-1]) if node.args else ""
                guarded = False
                p = model.parents.get(node)
                while p is not None and p is not f:
                    if isinstance(p, ast.If) and ast.unparse(p.test) == f"{arg} not in {lst}" and any(node is y for x in p.body for y in ast.walk(x)):
                        guarded = True
                    p = model.parents.get(p)
                rep.check(guarded and node.func.attr == "append", "C01.z", q, f"{ast.unparse(node)}",
                          f"`{ast.unparse(node)}` can list a state twice: `try {{ case {{ \"a\",\"b\" -> {{ \"c\"; }} }} }} catch {{ }} n = [n + 1]; hk();` performs the assignment and the hook "
                          "twice on \"ac\" (the shared clause body is joined on once per label)", line=node.lineno)
    if n < 1:
        raise AnalysisError("C01.z: no append to an accepting_states list found (anchor lost: DFA.mark_accepting)")


_run_z01 = run


def run(ctx, rep, tier):
    _run_z01(ctx, rep, tier)
    _accepting_states_form_a_set(ctx, rep, tier)


_run_r6 = run


def run(ctx, rep, tier):
    _run_r6(ctx, rep, tier)
    from .shared import delegate_fn
    from . import c02
    delegate_fn(ctx, rep, tier, c02._run_d05, ("C02.j",), "C01.aa", "an out-of-space condition transfers control to the handler AT the offending byte: an overflowing append on a non-consuming step "
                "does not advance the input, one on a consuming transition hands the next byte over exactly once", prop="C02")
