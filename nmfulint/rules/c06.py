"""C06 - emitted C executes exactly the compiled state machine (DESIGN.md section 3, C06)."""
import ast, re
from ..core import AnalysisError
from ..srcmodel import walk_no_nested, calls_in, strip_doc
from ..dispatch import isinstance_chain
from ..tmpl import transition_body_paths, iter_lines, action_contexts, feasible_action_path
from ..cevents import events_of
from ..emit import Line, LoopBlock, CallBlock, SStr
from .tbrows import check_row

EXPLANATION = (
    "Decided - the per-state / per-transition skeleton, for all machines: C06.a one numbering (case labels enumerate "
    "dfa.states; every state store renders dfa.states.index(...) of the same list). C06.b dispatch order: non-else "
    "transitions in state.transitions order as one if/else-if chain, the Else transition last as the else arm - the C "
    "image of DFState.__getitem__. C06.c byte tests cover on_values once: each value is either moved to a range test or "
    "left for an equality test, End gets none; a range run restarts at the first non-consecutive value. C06.d each "
    "action class's declared override mode / early-return flag matches what its template does (returns, conditional or "
    "unconditional state stores). C06.e the three class dispatches (actions, integer expressions, conditions) are total "
    "and order subclasses before their bases. C06.f condition points emit conditions in order and refuse a misplaced "
    "else. C06.g every transition-body emission path follows its protocol row (state store, actions, advance, jump). "
    "C06.h the append templates write iff not full and divert to the out-of-space target otherwise.")
NOT_DECIDED = "that the numbers in range tests equal the code points beyond ord() being the emitted expression and the run-restart condition; value semantics of user expressions (C14)"
ENGINES = ["E1 source model", "E3 dispatch", "E5 emission-path enumerator", "E6 C-line events"]

ACT = "CodegenCtx._generate_action_implementation"
GCT = "CodegenCtx._generate_condition_for_transition"
SB = "CodegenCtx._generate_switch_body"


def check_range_runs(ctx, rep, RULE):
    """Run detection of the range collapser, recognised by what it does - a loop whose body opens with `ord(L[i - 1]) + 1 == ord(L[i])` - for whichever list L
    and start position the code scans (the value list itself from the first character on, or a slice of it without end-of-input)."""
    model = ctx.model
    fn = model.func(GCT)
    loops = []
    for n in walk_no_nested(fn):
        if isinstance(n, ast.For) and n.body and isinstance(n.body[0], ast.If):
            m = re.fullmatch(r"ord\((\w+)\[(\w+) - 1\]\) \+ 1 == ord\(\1\[\2\]\)", ast.unparse(n.body[0].test))
            if m and ast.unparse(n.target) == m.group(2):
                loops.append((n, m.group(1), m.group(2)))
    if len(loops) != 1:
        raise AnalysisError("range scan loop not found in _generate_condition_for_transition")
    lp, L, iv = loops[0]
    it = ast.unparse(lp.iter)
    m = re.fullmatch(rf"range\((?:(\w+) \+ 1|1), len\({L}\)\)", it)
    S = (m.group(1) or "0") if m else None
    rep.check(m is not None, RULE, GCT, "the scan visits every position after the first of the scanned list", f"the scan loop ranges over `{it}`")
    top = [st for st in lp.body if isinstance(st, ast.If)]
    ok = len(lp.body) == 1 and len(top) == 1
    rep.check(ok, RULE, GCT, "consecutive test: ord(prev) + 1 == ord(cur)", "run detection condition changed")
    src = ast.unparse(fn)
    if ok:
        cons, brk = top[0].body, top[0].orelse
        rep.check(len(cons) == 1 and ast.unparse(cons[0]) == f"range_end = {iv}", RULE, GCT, "consecutive value extends the run", "run extension changed")
        resets = [ast.unparse(st) for st in brk if isinstance(st, ast.Assign)]
        rep.check(resets == [f"range_start = {iv}", f"range_end = {iv}"], RULE, GCT, "a non-consecutive value restarts the run at itself (both ends), unconditionally",
                  f"after a gap the run is reset by {resets} as direct statements of the else-arm: a stale start index glues an isolated value onto the next long run, "
                  "and the emitted range test then accepts the bytes in the gap")
        emit = [st for st in brk if isinstance(st, ast.If)]
        thr = "range_end - range_start >= ProgramData.option(ProgramOption.COLLAPSED_RANGE_LENGTH)"
        rep.check(len(emit) == 1 and ast.unparse(emit[0].test) == thr and brk.index(emit[0]) == 0, RULE, GCT, "a closed run is emitted iff long enough, before the restart", "closed-run emission changed")
        # (the closing test may additionally require that a first element exists: `range_start < len(list) and <threshold>` / `list and <threshold>` - C18.r)
        after = [st for st in walk_no_nested(fn) if isinstance(st, ast.If) and ast.unparse(st.test) in (thr, f"range_start < len({L}) and " + thr, f"{L} and " + thr)]
        rep.check(len(after) == 2, RULE, GCT, "the last run is emitted after the loop under the same threshold", "final-run emission changed")
        for e in after:
            esrc = "\n".join(ast.unparse(x) for x in e.body)
            rep.check("for j in range(range_start, range_end + 1):" in esrc and re.search(r"used\.append\(\w+\[j\]\)", esrc) is not None and
                      re.search(r"checks\.append\(self\._generate_range_check\(\w+\[range_start\], \w+\[range_end\]\)\)", esrc) is not None, RULE, GCT,
                      "emitted run = [range_start, range_end] inclusive; its values are marked used", "range emission body changed", line=e.lineno)
        if S is not None:
            rep.check(f"range_start = {S}" in src and f"range_end = {S}" in src, RULE, GCT, "first run starts at the first position scanned", "initial run bounds changed")
            if S != "0":
                rep.check(model.has(GCT, f"{S} = 1 if DFTransition.End in {L} else 0"), RULE, GCT, "the scan starts behind end-of-input (sorted to the front), which has no code point",
                          f"where the scan of `{L}` starts (`{S}`) changed")
            else:
                rep.check(model.has(GCT, f"{L} = on_values_remaining[1:] if DFTransition.End in on_values_remaining else on_values_remaining"), RULE, GCT,
                          "the scanned list is the value list without end-of-input (sorted to the front)", f"what `{L}` holds changed")
    # one index space: a position found by the scan only means something in the list that was scanned
    idx_vars = {"range_start", "range_end", iv, "j"}
    foreign = []
    for n in walk_no_nested(fn):
        if isinstance(n, ast.Subscript) and isinstance(n.value, ast.Name) and not isinstance(n.slice, ast.Slice):
            names = {x.id for x in ast.walk(n.slice) if isinstance(x, ast.Name)}
            if names & idx_vars and n.value.id != L:
                foreign.append(ast.unparse(n))
    rep.check(not foreign, RULE, GCT, f"positions of the scan index the scanned list `{L}` only",
              f"positions computed while scanning `{L}` are used to index another list ({sorted(set(foreign))}): where the two differ (end-of-input in front) the value marked as covered "
              "by the range test is the one before the run - it gets no equality test and its byte takes the Else arm, while the last value of the run is tested twice")
    rep.check("for x in used:" in src and "on_values_remaining.remove(x)" in src, RULE, GCT, "values covered by a range test get no equality test", "used values are no longer removed")


def run(ctx, rep, tier):
    model, E = ctx.model, ctx.emit
    classes = [c for c in model.concrete_subclasses("Action") if c != "Action"]
    actx = action_contexts(ctx)

    # ------------------------------------------------------------------ C06.a one numbering
    rep.rule("C06.a", "case labels enumerate self.dfa.states; every state store renders self.dfa.states.index(x) of that same list")
    for q in ("CodegenCtx._generate_feed_implementation", "CodegenCtx._generate_end_implementation"):
        fp = E.enumerate(q)
        for p in fp.paths:
            for it in fp.lines(p):
                if isinstance(it, LoopBlock) and any(any(isinstance(x, Line) and x.text().strip().startswith("case ") for x in sub) for _, sub, _, _ in it.bodies):
                    ok = it.iter_src == "enumerate(self.dfa.states)" and it.target == "(idx, state)"
                    rep.check(ok, "C06.a", q, "case loop = enumerate(self.dfa.states)", f"case labels come from `{it.iter_src}`")
                    for _, sub, _, _ in it.bodies:
                        cases = [x.text().strip() for x in sub if isinstance(x, Line) and x.text().strip().startswith("case ")]
                        rep.check(cases == ["case [[idx]]:"], "C06.a", q, "one case label per state, its enumeration index", f"case labels {cases}")
    n_store = 0
    todo = [(ACT, {"action": cl}) for cl in classes] + [(x, None) for x in ("CodegenCtx._generate_transition_body", "CodegenCtx._generate_start_implementation")]
    for q, cls in todo:
        fp = E.enumerate(q, classes=cls)
        seen = set()
        for p, val, it in iter_lines(fp):
            for e in events_of([it], strict=False):
                if e.kind in ("SETSTATE", "SETSTATE_RAW") and e.text not in seen:
                    seen.add(e.text)
                    n_store += 1
                    rep.check(e.kind == "SETSTATE", "C06.a", q, f"state store: {e.text.strip()}", "a state index is written that is not self.dfa.states.index(<state>): it does not name the case label of that state")
    if n_store < 4:
        raise AnalysisError("C06.a: state stores not found")
    fp = E.enumerate("CodegenCtx._generate_start_implementation")
    starts = {e.a for p, val, it in iter_lines(fp) for e in events_of([it], strict=False) if e.kind == "SETSTATE"}
    rep.check(starts == {"self.dfa.starting_state"}, "C06.a", "CodegenCtx._generate_start_implementation", "start() stores the machine's starting state", f"start() stores {starts}")

    # ------------------------------------------------------------------ C06.b dispatch order
    rep.rule("C06.b", "non-else transitions in state.transitions order as one if / else-if chain; the Else transition last as the else arm")
    fp = E.enumerate(SB)
    n_b = 0
    for p in fp.paths:
        items = fp.lines(p)
        if not items:
            continue
        loops = [it for it in items if isinstance(it, LoopBlock)]
        if not loops and len(items) == 1 and isinstance(items[0], Line) and items[0].text().strip().startswith("return ") and p.end and p.end[0] == "return":
            # F-77: a state the program has finished in (accepting, only error paths leave it) is answered before any dispatch; the predicate is C10.l's
            fin = p.atoms.get("state in self.dfa.accepting_states") is True and any(k.startswith("all(") and "error_handling" in k and b is True for k, b in p.atoms.items())
            rep.check(fin and items[0].text().strip().endswith("_DONE;"), "C06.b", SB, "no dispatch only for a finished state (accepting, error paths only): DONE",
                      f"a state's case returns `{items[0].text().strip()}` without dispatching on the byte under {dict(p.atoms)}")
            continue
        if len(loops) != 1:
            rep.bad("C06.b", SB, "one loop over the state's transitions", f"{len(loops)} loops")
            continue
        lp = loops[0]
        n_b += 1
        m = re.fullmatch(r"enumerate\(\((\w+) for \1 in state\.transitions if \1 != (.+)\)\)", lp.iter_src)
        else_src = "next(state.all_transitions_for((DFTransition.Else,)))"
        rep.check(m is not None and m.group(2) in (else_src, "None"), "C06.b", SB, "iterates state.transitions in order, skipping only the Else transition", f"loop iterates `{lp.iter_src}`")
        forms = set()
        for delta, sub, endk, _ in lp.bodies:
            texts = [x.text().strip() if isinstance(x, Line) else x.text() for x in sub]
            if endk == "continue":
                forms.add(("skip", tuple(texts)))
                continue
            gi = next((b for k, b in delta.items() if k.startswith("generated_if")), None)
            ok = len(texts) == 3 and texts[0] == ("else if" if gi else "if") + " ([[CALL:_generate_condition_for_transition(transition)]]) {" and \
                texts[1] == "@@CALL _generate_transition_body(transition)" and texts[2] == "}"
            rep.check(ok, "C06.b", SB, f"arm (generated_if={gi}): test, transition body, close", f"arm emits {texts}")
        # else arm after the loop
        idx = items.index(lp)
        tail = [x.text().strip() if isinstance(x, Line) else x.text() for x in items[idx + 1:]]
        has_else = p.atoms.get(f"nonempty(state.all_transitions_for((DFTransition.Else,)))")
        else_call = f"@@CALL _generate_transition_body({else_src})"
        if has_else and p.atoms.get(else_src) is not False:
            gi_after = next((b for k, b in p.atoms.items() if k.startswith("generated_if")), None)
            want = (["else {", else_call, "}"] if gi_after else [else_call])
            rep.check(tail[:len(want)] == want and len(tail) == len(want) + 1, "C06.b", SB, f"Else transition rendered last (as else arm: {bool(gi_after)})", f"tail after the chain is {tail}")
        else:
            rep.check(len(tail) == 1 and tail[0].startswith("return "), "C06.b", SB, "no Else transition: chain then the state's tail", f"tail is {tail}")
    if n_b < 4:
        raise AnalysisError("C06.b: switch body paths not found")
    sbf = model.func(SB)
    rep.check("next(state.all_transitions_for((DFTransition.Else,)))" in ast.unparse(sbf), "C06.b", SB, "Else transition = the transition carrying Else", "else transition lookup changed")

    # ------------------------------------------------------------------ C06.c byte tests
    rep.rule("C06.c", "each on_value is covered by exactly one of: a range test (moved to `used`) or an equality test; End gets none; runs restart at gaps")
    check_range_runs(ctx, rep, "C06.c")
    fn = model.func(GCT)
    src = ast.unparse(fn)
    rep.check("on_values_remaining = transition.on_values[:]" in src and "result = ' || '.join(checks)" in src, "C06.c", GCT, "tests are OR-ed over a copy of the transition's symbols", "condition assembly changed")
    rep.check(re.search(r"checks\.extend\(\(?self\._generate_equal_check\((\w+)\) for \1 in on_values_remaining if \1 != DFTransition\.End\)?\)", src) is not None, "C06.c", GCT,
              "remaining values get equality tests (End excluded)", "equality test generation changed")
    gate = "ProgramData.do(ProgramFlag.COLLAPSE_TRANSITION_RANGES) and len(on_values_remaining) >= ProgramData.option(ProgramOption.COLLAPSED_RANGE_LENGTH)"
    rep.check(gate in src, "C06.c", GCT, "range collapsing only under its flag and threshold", "range collapsing gate changed")

    # ------------------------------------------------------------------ C06.d action / override agreement
    rep.rule("C06.d", "declared override mode / early-return flag of each action class matches what its template emits")
    for cl in classes:
        fp = E.enumerate(ACT, classes={"action": cl})
        feas = [p for p in fp.paths if not (p.end and p.end[0] == "raise") and feasible_action_path(p.valuation(), actx) and p.valuation().get("is_start") is not True
                and p.valuation().get("transition is None") is not True]
        if not feas:
            feas = [p for p in fp.paths if not (p.end and p.end[0] == "raise")]
        final_ret = store_all = True
        any_store = any_final = False
        cond_store = False
        for p in feas:
            evs = events_of(fp.lines(p))
            fr = any(e.kind == "RET" and e.a in ("DONE", "FINISH") for e in evs)
            st = any(e.kind == "SETSTATE" for e in evs)
            depth = 0
            for e in evs:
                if e.kind in ("IF", "GUARD_CAP"):
                    depth += 1
                elif e.kind == "CLOSE":
                    depth -= 1
                elif e.kind == "SETSTATE" and depth > 0:
                    cond_store = True      # stored inside a C `if`: taken only at run time
            any_final |= fr
            any_store |= st
            final_ret &= fr
            store_all &= st
        o, mfn = model.resolve_method(cl, "get_target_override_mode")
        body = strip_doc(mfn.body)
        mode = ast.unparse(body[-1].value).split(".")[-1] if len(body) == 1 and isinstance(body[-1], ast.Return) else None
        if cl == "ConditionalAction":
            rep.ok("C06.d", "ConditionalAction.get_target_override_mode", "aggregates its sub-actions (checked under C05.d)", nontrivial=False)
            continue
        if any_final:
            want = "ALWAYS_GOTO_UNDEFINED" if final_ret else "MAY_GOTO_UNDEFINED"
        elif any_store:
            want = "ALWAYS_GOTO_OTHER" if (store_all and not cond_store) else "MAY_GOTO_TARGET"
        else:
            want = "NONE"
        rep.check(mode == want, "C06.d", f"{cl}.get_target_override_mode", f"{cl}: template behaviour -> {want}",
                  f"{cl}'s template {'always returns a final code' if final_ret and any_final else 'stores a state on ' + ('every' if store_all else 'some') + ' path' if any_store else 'never leaves'} "
                  f"but its declared override mode is {mode}: jump labels, reachability and the fall-through check trust the declaration")

    # ------------------------------------------------------------------ C06.e totality of class dispatches
    rep.rule("C06.e", "every concrete Action / IntegerExpr / DFCondition subclass has a branch in its renderer, subclasses before their bases")
    for q, subj, base in ((ACT, "action", "Action"), ("CodegenCtx._generate_code_for_int_expr", "intexpr", "IntegerExpr"), ("CodegenCtx._generate_condition", "condition", "DFCondition")):
        arms, resid = isinstance_chain(model.func(q).body, subj)
        order = [c for cl, _ in arms for c in cl]
        instantiated = {n.func.id for f in model.functions.values() for n in ast.walk(f) if isinstance(n, ast.Call) and isinstance(n.func, ast.Name)}
        for c in model.concrete_subclasses(base):
            if c == base or c not in instantiated:
                continue
            hit = next((i for i, h in enumerate(order) if model.is_subclass(c, h)), None)
            rep.check(hit is not None, "C06.e", q, f"{c} has a branch", f"{c} is a concrete {base} but {q.split('.')[1]} has no branch for it (residual: {resid})")
            if hit is not None and order[hit] != c:
                exact = order.index(c) if c in order else None
                rep.check(exact is None, "C06.e", q, f"{c}: no earlier base-class branch shadows its own", f"branch for base {order[hit]} precedes the branch for {c}: the specific template is never used")
        rep.check(resid[0] in ("raise", "falloff"), "C06.e", q, f"residual arm: {resid}", "residual arm changed")

    # ------------------------------------------------------------------ C06.f condition points
    rep.rule("C06.f", "condition points emit their conditions in state.transitions order as if / else-if / else; an else that is not last is refused")
    fp = E.enumerate("CodegenCtx._generate_condition_point_body")
    n_f = 0
    for p in fp.paths:
        for it in fp.lines(p):
            if isinstance(it, LoopBlock):
                rep.check(it.iter_src == "state.transitions", "C06.f", "CodegenCtx._generate_condition_point_body", "iterates state.transitions in order", f"iterates {it.iter_src}")
                for delta, sub, endk, end in it.bodies:
                    n_f += 1
                    is_else = delta.get("isinstance(condition.condition, ElseCondition)")
                    gi = next((b for k, b in delta.items() if k.startswith("generated_if")), None)
                    if is_else and gi is False:
                        rep.check(endk == "raise" and end and model.is_subclass((end[1] or "").split(".")[-1], "NMFUError"), "C06.f", "CodegenCtx._generate_condition_point_body",
                                  "else before any condition is refused", f"an else condition that is not last ends as {endk}")
                        continue
                    texts = [x.text().strip() if isinstance(x, Line) else x.text() for x in sub]
                    head = "else {" if is_else else ("else if" if gi else "if") + " ([[CALL:_generate_condition(condition.condition, from_end)]]) {"
                    ok = texts == [head, "@@CALL _generate_transition_body(condition, from_end)", "}"]
                    rep.check(ok, "C06.f", "CodegenCtx._generate_condition_point_body", f"arm (else={is_else}, generated_if={gi})", f"arm emits {texts}")
    if n_f < 4:
        raise AnalysisError("C06.f: condition point arms not found")

    # ------------------------------------------------------------------ C06.g transition rows
    rep.rule("C06.g", "every emission path of the transition body follows its protocol row (state store first, actions once, advance / compare / reload / jump)")
    for tb in transition_body_paths(ctx):
        row, probs = check_row(tb)
        rep.check(not probs, "C06.g", "CodegenCtx._generate_transition_body", f"{row}: {tb.valuation_str()}", "; ".join(probs))
    rep.floor("C06.g", 100)

    # ------------------------------------------------------------------ C06.h append templates
    rep.rule("C06.h", "append templates write the byte iff the buffer is not full and divert to the action's out-of-space target otherwise")
    from .c03 import check_append_path, pk
    for cl in ("AppendTo", "AppendCharTo"):
        fp = E.enumerate(ACT, classes={"action": cl})
        for p in fp.paths:
            if p.end and p.end[0] == "raise":
                continue
            v = p.valuation()
            evs = [e for e in events_of(fp.lines(p)) if e.kind != "COMMENT"]
            probs = check_append_path(evs, v)
            rep.check(not probs, "C06.h", ACT, f"{cl} [{pk(v)}]", "; ".join(probs))
    rep.floor("C06.h", 40)


def _shared(ctx, rep, tier):
    from .shared import delegate
    rep.check(ctx.model.has("DFA.append_after", "for state in chained_dfa.states:\n    if state not in self.states:\n        self.add(state)"), "C06.a", "DFA.append_after",
              "a state appears once in dfa.states (index() names the case label that is executed)", "states can be added to the machine twice: the second copy's case label is dead, "
              "and labels inside its body are defined twice")
    delegate(ctx, rep, tier, "C17", ("C17.d",), "C06.i", "end(): the per-state end move is taken exactly as the machine's End transition prescribes and the reported code reflects the state reached",
             where="CodegenCtx._generate_end_switch_body")
    delegate(ctx, rep, tier, "C03", ("C03.c",), "C06.j", "string assignment / default templates copy exactly the literal's bytes (+NUL iff terminated) and store its length",
             where="CodegenCtx._generate_set_string")


_run0 = run


def run(ctx, rep, tier):
    _run0(ctx, rep, tier)
    _shared(ctx, rep, tier)


_run_d05 = run


def run(ctx, rep, tier):
    _run_d05(ctx, rep, tier)
    from .shared import delegate
    delegate(ctx, rep, tier, "C02", ("C02.g",), "C06.l", "nested action templates are generated with the context of the enclosing transition (a redirect inside them re-dispatches instead of returning)")
    delegate(ctx, rep, tier, "C05", ("C05.d",), "C06.k", "what an action may do to the target (override mode / targets, for every branch of a conditional action) is what the emitted control transfer relies on")


_run_l05 = run


def run(ctx, rep, tier):
    _run_l05(ctx, rep, tier)
    from .shared import delegate
    delegate(ctx, rep, tier, "C05", ("C05.l",), "C06.m", "the optimiser never creates a transition on which the early advance for a yield meets an action that re-dispatches without consuming")


# ---------------------------------------------------------------------------------------------------------------- C06.n
def _state_member_holds_every_number(ctx, rep, tier):
    """C06.n: the `state` member is declared with the integer type that holds every number any template stores into it.

    Numbers stored: `self.dfa.states.index(x)` (at most len(states) - 1) and `_fail_state_index()` - which is `len(states)`, one past the last state, when no
    input can make the program fail and the fail state was removed as inaccessible. A declaration sized for len(states) - 1 truncates that marker for a machine
    with exactly 256 (65536) states: "failed" wraps to state 0 and a later feed() answers like a fresh parser."""
    model, E = ctx.model, ctx.emit
    rep.rule("C06.n", "the integer type of the `state` member is chosen for a bound that is at least every number a template stores into state->state "
                      "(state indexes; the 'failed' marker one past the last state)")

    def offset(src):
        """`len(self.dfa.states) + k` -> k ; `self.dfa.states.index(..)` -> -1 ; else None."""
        s = src.replace(" ", "")
        if re.fullmatch(r"self\.dfa\.states\.index\(.*\)", s):
            return -1
        m = re.fullmatch(r"len\(self\.dfa\.states\)(?:([+-])(\d+))?", s)
        if m:
            return 0 if m.group(1) is None else (int(m.group(2)) if m.group(1) == "+" else -int(m.group(2)))
        return None

    # what _fail_state_index can return
    fsi = model.functions.get("CodegenCtx._fail_state_index")       # (absent on trees from before the marker existed: then only state indexes are stored)
    stored = {}
    for r in (ast.walk(fsi) if fsi is not None else ()):
        if isinstance(r, ast.Return) and r.value is not None:
            o = offset(ast.unparse(r.value))
            if o is None:
                raise AnalysisError(f"C06.n: _fail_state_index returns `{ast.unparse(r.value)}` (not an index of / a linear bound on self.dfa.states)")
            stored[f"_fail_state_index(): {ast.unparse(r.value)}"] = o
    fail_max = max(stored.values()) if stored else None
    # every store emitted by any generator
    gens = [q for q, f in model.functions.items() if q.startswith("CodegenCtx.") and q.count(".") == 1 and
            any(isinstance(n, ast.Call) and isinstance(n.func, ast.Attribute) and n.func.attr == "add" for n in ast.walk(f))]
    n_stores = 0
    for q in gens:
        variants = [dict(classes={"action": cl}) for cl in model.concrete_subclasses("Action") if cl != "Action"] if q.endswith("._generate_action_implementation") else [{}]
        for kw in variants:
            fp = E.enumerate(q, **kw)
            for p in fp.paths:
                for e in events_of(fp.lines(p)):
                    if e.kind == "SETSTATE":
                        n_stores += 1
                        stored.setdefault("state index", -1)
                    elif e.kind == "SETSTATE_RAW":
                        n_stores += 1
                        src = e.a.strip()
                        if src == "[[self._fail_state_index()]]" and fail_max is not None:
                            continue
                        m = re.fullmatch(r"\[\[(.*)\]\]", src)
                        o = offset(m.group(1)) if m else None
                        if o is not None:
                            stored[f"template: {m.group(1)}"] = o
                            continue
                        raise AnalysisError(f"C06.n: a template stores `{src}` into state->state (not a state index, not the fail marker): teach the rule")
    if n_stores < 5:
        raise AnalysisError(f"C06.n: only {n_stores} stores into state->state found in the templates")
    need = max(stored.values())
    # the declaration
    decl = None
    for c in calls_in(model.func("CodegenCtx._generate_state_object_decl")):
        if isinstance(c.func, ast.Attribute) and c.func.attr == "add" and len(c.args) == 2 and isinstance(c.args[1], ast.Constant) and c.args[1].value == "state;":
            inner = c.args[0]
            if isinstance(inner, ast.Call) and ast.unparse(inner.func) == "self._integer_containing" and inner.args:
                decl = ast.unparse(inner.args[0])
    if decl is None:
        raise AnalysisError("C06.n: declaration of the `state` member not found (contents.add(self._integer_containing(<bound>, ...), \"state;\"))")
    have = offset(decl)
    rep.check(have is not None and have >= need, "C06.n", "CodegenCtx._generate_state_object_decl", "bound of the `state` member >= every stored number",
              f"`state` is declared for values up to `{decl}`, but the templates store up to len(states){need:+d} ({', '.join(k for k, v in stored.items() if v == need)}): with exactly "
              "256 states and no fail state the 'failed' marker 256 wraps to 0 in a uint8_t - after end() answered FAIL a later feed() answers as if nothing had happened")
    for k in stored:
        rep.ok("C06.n", "CodegenCtx", f"stored: {k}")


_run_n06 = run


def run(ctx, rep, tier):
    _run_n06(ctx, rep, tier)
    _state_member_holds_every_number(ctx, rep, tier)


_run_r6 = run


def run(ctx, rep, tier):
    _run_r6(ctx, rep, tier)
    from .shared import delegate_fn
    from . import c15
    delegate_fn(ctx, rep, tier, c15._run_i15, ("C15.c",), "C06.o", "the bytes a string action stores are the bytes of the machine's value: every escape in an emitted C literal has a fixed length, so the C compiler reads back "
             "exactly the bytes that were written", prop="C15")
    from .shared import delegate
    delegate(ctx, rep, tier, "C03", ("C03.i",), "C06.p", "the length counter of a string can hold every length the buffer can reach (an unterminated str[N] holds N): the out-of-space test compares the counter with N")
