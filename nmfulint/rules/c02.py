"""C02 - parsing result is independent of how input is chunked (DESIGN.md section 3, C02)."""
import ast, re
from ..core import AnalysisError
from ..tmpl import transition_body_paths, flatten_items
from ..cevents import events_of, classify
from ..emit import Line, LoopBlock, CallBlock
from ..srcmodel import walk_no_nested, strip_doc
from .tbrows import check_row

EXPLANATION = (
    "Chunk resumption exists only in the emitted C, and its per-transition part is fully visible in the templates. "
    "C02.a: on every emission path the state store precedes the actions and every return, and every action template "
    "that returns without finishing the parse is preceded by a state store on its own path or relies on the "
    "enclosing one. C02.b/e: a consuming in-call continuation has exactly one advance, then compare-with-end -> "
    "return OK, then a reload of `inval` through the same pointer that was advanced, then the jump; early advance "
    "(before actions that may return) and late advance are complementary. C02.c: no template declares a local other "
    "than `inval` (initialised at entry from the current pointer, after the optional empty-chunk test), none emits "
    "`static` or a file-scope object - nothing but the state struct survives a call. C02.d: the three users of "
    "'may return early' (the action classes' declaration, the early-advance test, the feed-entry end check) agree.")
NOT_DECIDED = ("InterruptableActionNode's proxy-state construction (DFA level); data-dependent resumption; that the "
               "machine's states are a sufficient summary of progress (they are by construction of a DFA)")
ENGINES = ["E1 source model", "E5 emission-path enumerator", "E6 C-line events"]

TB = "CodegenCtx._generate_transition_body"
ACT = "CodegenCtx._generate_action_implementation"
DECL_RX = re.compile(r"^\s*(?:static\s+|const\s+|unsigned\s+|signed\s+)*(?:u?int(?:8|16|32|64|max|ptr)_t|char|bool|int|long|short|size_t|float|double|struct\s+\w+|enum\s+\w+)\s*\**\s*\w+\s*(?:=[^=].*)?;")
SOURCE_FUNCS = ["CodegenCtx.generate_source", "CodegenCtx._generate_start_implementation", "CodegenCtx._generate_feed_implementation",
                "CodegenCtx._generate_end_implementation", "CodegenCtx._generate_free_implementation", "CodegenCtx._generate_switch_body",
                "CodegenCtx._generate_end_switch_body", "CodegenCtx._generate_condition_point_body", TB]


def run(ctx, rep, tier):
    model = ctx.model
    tbs = transition_body_paths(ctx)
    rep.count("emission_paths:_generate_transition_body", len(tbs))

    # ------------------------------------------------------------ C02.a/b/e from the row table
    rep.rule("C02.a", "state store precedes actions and every return on each transition-body path")
    rep.rule("C02.b", "consuming continuation: one advance, compare-with-end -> OK, reload through the advanced pointer, jump")
    rep.rule("C02.e", "early and late advance are complementary (same atom, total advance count 1)")
    for tb in tbs:
        row, probs = check_row(tb)
        key = f"{row}: {tb.valuation_str()}"
        pa = [p for p in probs if "state store" in p or "stored" in p or "actions" in p]
        pb = [p for p in probs if p not in pa]
        rep.check(not pa, "C02.a", TB, key, "; ".join(pa), extra={"lines": tb.lines()})
        if row in ("consume", "terminating"):
            rep.check(not pb, "C02.b", TB, key, "; ".join(pb), extra={"lines": tb.lines()})
            advs = [e for e in tb.events if e.kind == "ADV"]
            early = tb.get("EARLY")
            if row == "consume":
                # complementary: standalone ADV iff EARLY ; fused ++ in compare iff not EARLY
                standalone = [e for e in advs if e.text.strip().startswith("++")]
                fused = [e for e in advs if not e.text.strip().startswith("++")]
                ok = (early is True and len(standalone) == 1 and not fused) or (early is False and len(fused) == 1 and not standalone)
                rep.check(ok, "C02.e", TB, key, f"advance placement does not match may-return-early={early}: "
                                                 f"{len(standalone)} standalone, {len(fused)} fused with the end compare")
        elif pb:
            rep.bad("C02.b", TB, key, "; ".join(pb), extra={"lines": tb.lines()})
    rep.floor("C02.a", 100)
    rep.floor("C02.b", 40)
    rep.floor("C02.e", 20)

    # ------------------------------------------------------------ C02.a (ii) action templates that return early
    rep.rule("C02.a2", "an action template that returns OK (not finishing the parse) stores its resume state first")
    rep.rule("C02.j", "a template that consumes the transition's byte itself before leaving for another state performs a complete consuming step")
    rep.rule("C02.d", "an action class whose feed-time template can return without finishing declares may_return_early() True; "
                      "needs_early_advance and _needs_end_check are computed from may_return_early() of the transition's actions")
    classes = [c for c in model.concrete_subclasses("Action") if c != "Action"]
    if len(classes) < 9:
        raise AnalysisError(f"expected at least 9 concrete Action classes, found {classes}")
    for cl in classes:
        fp = ctx.emit.enumerate(ACT, classes={"action": cl})
        rep.count("emission_paths:action:" + cl, len(fp.paths))
        feed_returns_nonfinal = False
        for p in fp.paths:
            if p.end and p.end[0] == "raise":
                continue
            evs = [e for e in events_of(fp.lines(p)) if e.kind != "COMMENT"]
            for i, e in enumerate(evs):
                if e.kind == "RET" and e.a == "OK":
                    has_store = any(x.kind in ("SETSTATE", "SETSTATE_RAW") for x in evs[:i])
                    rep.check(has_store, "C02.a2", ACT, f"{cl}: return OK", "action returns OK without storing a resume state first",
                              extra={"lines": [i.text() for i in fp.lines(p)]})
                if e.kind == "RET" and e.a in ("OK", "YIELD"):
                    in_feed = p.atoms.get("transition is None") is not True and p.atoms.get("is_start") is not True
                    if in_feed and e.a == "OK" and e.b == "cond" and i >= 1 and evs[i - 1].kind == "CMP_END":
                        # F-109: a template that consumes the transition's byte itself before it leaves for another state (an append-character that overflows hands its
                        # handler the NEXT byte): the chunk-end return of a complete consuming step - state stored, pointer advanced exactly once (here, unless the
                        # transition body already did: `_advances_before_actions`), byte reloaded, re-dispatch. Nothing is lost or replayed on re-entry.
                        adv_here = i >= 2 and evs[i - 2].kind == "ADV"
                        # `_advances_before_actions(transition)` is inlined by the enumerator: EARLY and not immediate_done, from the same atoms the transition body uses
                        from ..tmpl import TBPath
                        tbp = TBPath(p, [])
                        imm = tbp.immediate_done()
                        early = None if tbp.get("EARLY") is None or (tbp.get("EARLY") is True and imm is None) else (tbp.get("EARLY") is True and imm is False)
                        tail = [x.kind for x in evs[i + 1:i + 3]]
                        ok = early is not None and adv_here != early and tail == ["RELOAD", "GOTO"] and evs[i + 2].a == "repeatswitch" and \
                            any(x.kind in ("SETSTATE", "SETSTATE_RAW") for x in evs[:i]) and p.atoms.get("transition.is_fallthrough") is False and p.atoms.get("is_end") is False
                        rep.check(ok, "C02.j", ACT, f"{cl}: consuming hand-over (advance once, chunk-end test, reload, re-dispatch) [early={early}]",
                                  f"{cl}'s template returns OK at the chunk end without being a complete consuming step (store, exactly one advance, reload, goto repeatswitch, consuming feed-time "
                                  "transitions only): a byte is lost or replayed when the parser is re-entered", extra={"lines": [x.text() for x in fp.lines(p)]})
                        continue
                    if in_feed:
                        feed_returns_nonfinal = True
        if cl == "AppendCharTo":
            # F-109: the byte of a consuming transition was matched by the statement in front of the append: on overflow the handler must start at the NEXT byte
            n_over = 0
            for p in fp.paths:
                # (an atom the template never evaluated means it does not distinguish that case: the same text is emitted on consuming feed-time transitions too)
                if (p.end and p.end[0] == "raise") or p.atoms.get("transition is None") is not False or p.atoms.get("transition.is_fallthrough") is True or p.atoms.get("is_end") is True:
                    continue
                evs = [e for e in events_of(fp.lines(p)) if e.kind != "COMMENT"]
                g = next((i for i, e in enumerate(evs) if e.kind == "GUARD_CAP"), None)
                if g is None:
                    continue
                arm = []
                for e in evs[g + 1:]:
                    if e.kind == "CLOSE":
                        break
                    arm.append(e.kind)
                n_over += 1
                rep.check("RELOAD" in arm and "CMP_END" in arm and arm[-1:] == ["GOTO"], "C02.j", ACT, "AppendCharTo overflow on a consuming transition: the handler is given the next byte",
                          "an append-character that overflows on a consuming transition stores the handler state and re-dispatches the SAME byte, which the statement in front of the append has "
                          "already matched: the handler sees it a second time (`try { \"xa\"; s += [q]; \"b\"; } catch (outofspace) { \"a\"; }` accepts \"xa!\"), and inside a loop feed() "
                          "never returns (`loop { \"a\"; try { s += [q]; \"c\"; } catch { } }` on \"aa\")")
            rep.check(n_over >= 1, "C02.j", ACT, f"{n_over} overflow arm(s) of AppendCharTo on consuming transitions examined", "no overflow arm of AppendCharTo found on consuming-transition paths")
        owner, const = model.const_return(cl, "may_return_early")
        declared = None
        if const is not None and isinstance(const, ast.Constant):
            declared = bool(const.value)
        if feed_returns_nonfinal:
            rep.check(declared is True, "C02.d", f"{cl}.may_return_early", f"{cl} returns from feed without finishing",
                      f"{cl}'s template can return OK/YIELD from feed but may_return_early() (resolved in {owner}) is not constant True: "
                      "a byte is lost or replayed when the parser is re-entered")
        elif declared is True:
            rep.ok("C02.d", f"{cl}.may_return_early", f"{cl} declares early return (template has none on feed paths: conservative)")
        else:
            rep.ok("C02.d", f"{cl}.may_return_early", f"{cl}: no non-final return on feed paths", nontrivial=False)
    # recursive template calls forward the whole calling context
    rep.rule("C02.g", "nested action templates (conditional / break sub-actions) are rendered with the same is_start / is_end / transition context")
    n_rec = 0
    for cl in classes:
        fp = ctx.emit.enumerate(ACT, classes={"action": cl})
        seen_calls = set()
        for p in fp.paths:
            for it in flatten_items(fp.lines(p)):
                if isinstance(it, CallBlock) and it.call.callee == "_generate_action_implementation":
                    args = tuple(it.call.args_src)
                    if args in seen_calls:
                        continue
                    seen_calls.add(args)
                    n_rec += 1
                    ok = {"is_start=is_start", "is_end=is_end", "transition=transition"} <= set(args[1:])
                    rep.check(ok, "C02.g", ACT, f"{cl}: nested call ({', '.join(args)})",
                              "a nested action is rendered without the enclosing context: inside feed it then emits the start()-form (`return OK` instead of "
                              "`goto repeatswitch` / `goto skipaction`), dropping the rest of the chunk")
    if n_rec < 2:
        raise AnalysisError("C02.g: nested template calls not found")
    # ConditionalAction propagates
    owner, f = model.resolve_method("ConditionalAction", "may_return_early")
    src = ast.unparse(f) if f else ""
    rep.check(owner == "ConditionalAction" and "may_return_early()" in src and ("embeds()" in src or "sub_actions" in src) and "any(" in src,
              "C02.d", "ConditionalAction.may_return_early", "propagates sub-actions",
              "ConditionalAction.may_return_early must be any(sub.may_return_early()) over its embedded actions")
    # the two consumers
    early_atoms = set()
    for tb in tbs:
        for a in tb.path.atoms:
            if "may_return_early" in a:
                early_atoms.add(a)
    rep.check(len(early_atoms) == 1 and "transition.actions" in next(iter(early_atoms)), "C02.d", TB, "needs_early_advance source",
              f"needs_early_advance is not computed from may_return_early() over transition.actions: {sorted(early_atoms)}")
    check_needs_end_check(ctx, rep)
    rep.floor("C02.d", 10)

    # ------------------------------------------------------------ feed prologue
    rep.rule("C02.f", "feed entry: optional empty-chunk test, then `inval` initialised from the current pointer in the same pointer mode, "
                      "then the repeatswitch label and the state switch")
    fn = "CodegenCtx._generate_feed_implementation"
    fp = ctx.emit.enumerate(fn)
    for p in fp.paths:
        evs = [e for e in events_of(fp.lines(p)) if e.kind not in ("COMMENT",)]
        pk = ", ".join(f"{k}={'T' if v else 'F'}" for k, v in sorted(p.valuation().items()))
        want = "indirect" if p.atoms.get("F:INDIRECT_START_PTR") else "direct"
        ks = [e.kind for e in evs]
        try:
            i_decl = ks.index("DECL")
            i_lab = next(i for i, e in enumerate(evs) if e.kind == "LABEL" and e.a == "repeatswitch")
            i_sw = ks.index("SWITCH")
        except (ValueError, StopIteration):
            rep.bad("C02.f", fn, f"prologue [{pk}]", "feed prologue lacks inval declaration / repeatswitch label / switch")
            continue
        modes = {e.a for e in evs[:i_sw] if e.kind in ("CMP_END", "RELOAD")}
        sig = next((e for e in evs if e.kind == "FUNCDEF"), None)
        sig_ok = sig is not None and (("**start" in sig.b) == (want == "indirect"))
        cmp_before = [i for i, e in enumerate(evs[:i_sw]) if e.kind == "CMP_END"]
        order_ok = i_decl < i_lab < i_sw and all(i < i_decl for i in cmp_before) and evs[i_decl + 1].kind == "RELOAD"
        rep.check(modes == {want} and sig_ok and order_ok, "C02.f", fn, f"prologue [{pk}]",
                  f"feed prologue inconsistent: pointer modes {sorted(modes)} (want {want}), signature ok={sig_ok}, order ok={order_ok}",
                  extra={"lines": [i.text() for i in fp.lines(p)][:8]})
        # the label must sit after the inval load so that `goto repeatswitch` re-dispatches without re-reading
    rep.floor("C02.f", 4)

    # ------------------------------------------------------------ C02.c nothing but the state struct survives a call
    rep.rule("C02.c", "no emitted line declares a C local other than `inval`, uses `static`, or defines a file-scope object")
    nlines = 0
    decls = []
    targets = list(SOURCE_FUNCS)
    for q in targets:
        fp = ctx.emit.enumerate(q)
        for p in fp.paths:
            for it in flatten_items(fp.lines(p)):
                if isinstance(it, Line):
                    t = it.text()
                    nlines += 1
                    if re.search(r"\bstatic\b", t) and not t.strip().startswith("//"):
                        rep.bad("C02.c", q, "static: " + t.strip(), "a template emits `static` storage: state would survive across feed calls / parsers")
                    if DECL_RX.match(t) and "typedef" not in t:
                        decls.append((q, t.strip()))
    for cl in classes:
        fp = ctx.emit.enumerate(ACT, classes={"action": cl})
        for p in fp.paths:
            for it in flatten_items(fp.lines(p)):
                if isinstance(it, Line):
                    t = it.text()
                    nlines += 1
                    if re.search(r"\bstatic\b", t) and not t.strip().startswith("//"):
                        rep.bad("C02.c", ACT, "static: " + t.strip(), "an action template emits `static` storage")
                    if DECL_RX.match(t):
                        decls.append((ACT + ":" + cl, t.strip()))
    rep.count("template_lines_scanned", nlines)
    seen = set()
    for q, t in decls:
        if (q, t) in seen:
            continue
        seen.add((q, t))
        ok = q.endswith("_generate_feed_implementation") and t.startswith("uint8_t inval = ")
        rep.check(ok, "C02.c", q, "decl: " + t, "a C variable other than feed's `inval` is declared by a template: a value cached in it "
                  "does not survive (or wrongly survives) the return between chunks")
    if not any(t.startswith("uint8_t inval") for _, t in decls):
        raise AnalysisError("C02.c: feed's `inval` declaration not found")
    # positive fixture: the declaration recogniser must fire on a static local
    if not (DECL_RX.match("    static int x;") and DECL_RX.match("uint8_t saved = inval;") and not DECL_RX.match("state->c.x = 3;")):
        raise AnalysisError("C02.c fixture: declaration recogniser broken")
    rep.ok("C02.c", "fixture", "`static int x;` recognised, `state->c.x = 3;` not", nontrivial=False)


def check_needs_end_check(ctx, rep, RULE="C02.d"):
    """_needs_end_check must be True under ZERO_LEN_INPUT_SUPPORT and whenever *any* transition carries an action that may
    return early: every loop-body path either sees may_return_early()=True and returns constant True, or sees it False."""
    from ..emit import SConst, SAlias
    fnq = "CodegenCtx._needs_end_check"
    fp = ctx.emit.enumerate(fnq)
    saw_zero = saw_loop = False
    for p in fp.paths:
        z = p.atoms.get("F:ZERO_LEN_INPUT_SUPPORT")
        if z is True:
            saw_zero = True
            ok = p.end and p.end[0] == "return" and isinstance(p.end[1], SConst) and p.end[1].value is True
            rep.check(ok, RULE, fnq, "zero-length support => entry check", "with ZERO_LEN_INPUT_SUPPORT the entry test must be emitted")
            continue
        loops = [e for e in p.effects if e.startswith("loop over ")]
        dom = [e for e in loops if "all_transitions" in e or "self.dfa.states" in e]
        if not dom:
            rep.bad(RULE, fnq, "iteration domain", f"_needs_end_check no longer scans the machine's transitions ({loops})")
            continue
        saw_loop = True
    # analyse the loop body alternatives by re-walking the For statement
    fn = ctx.model.func(fnq)
    loop = next((n for n in ast.walk(fn) if isinstance(n, ast.For)), None)
    if loop is None:
        raise AnalysisError("_needs_end_check: loop over transitions not found")
    from ..emit import Path, SSym
    E = ctx.emit
    E.self_class = "CodegenCtx"
    E._fn_stack = [fnq]
    pth = Path()
    pth.env["self"] = SSym("self")
    for x in ast.walk(loop.target):
        if isinstance(x, ast.Name):
            pth.env[x.id] = SSym(x.id)
    body_paths = E._exec_block(loop.body, pth)
    n = 0
    for bp in body_paths:
        early = [(a, v) for a, v in bp.atoms.items() if "may_return_early" in a]
        key = ", ".join(f"{a}={'T' if v else 'F'}" for a, v in sorted(bp.atoms.items()))
        n += 1
        if not early:
            rep.bad(RULE, fnq, f"transition skipped unseen [{key}]",
                    "a transition is skipped without looking at whether its actions may return early: a yield on such a transition "
                    "returns with start == end and the re-entered feed reads past the chunk")
            continue
        a, v = early[0]
        if ".actions" not in a:
            rep.bad(RULE, fnq, "early-return test subject", f"may_return_early is not evaluated over the transition's actions: {a}")
        if v:
            ok = bp.end and bp.end[0] == "return" and isinstance(bp.end[1], SConst) and bp.end[1].value is True
            rep.check(ok, RULE, fnq, f"early-returning action => True [{key}]",
                      "a transition with an action that may return early does not make _needs_end_check return constant True")
        else:
            ok = bp.end is None or bp.end[0] in ("continue",)
            rep.check(ok, RULE, fnq, f"no early return => next transition [{key}]", "loop leaves early on a transition without early-returning actions")
    if not (saw_zero and saw_loop and n >= 2):
        raise AnalysisError("_needs_end_check: expected structure (flag test, loop over transitions) not found")


_run_d05 = run


def run(ctx, rep, tier):
    _run_d05(ctx, rep, tier)
    from .shared import delegate
    delegate(ctx, rep, tier, "C05", ("C05.d",), "C02.h", "override modes / targets of conditional actions cover every branch: the in-call continuation after a redirecting action re-dispatches instead of jumping to the stale target")


_run_q01 = run


def run(ctx, rep, tier):
    _run_q01(ctx, rep, tier)
    from .shared import delegate
    delegate(ctx, rep, tier, "C01", ("C01.q",), "C02.i", "no state is left without a transition for some byte by loop conversion (such a byte makes feed() return OK mid-chunk: the outcome then depends on chunking)")
    delegate(ctx, rep, tier, "C05", ("C05.l",), "C02.k", "the optimiser never puts a yield on a transition with an action that may leave without consuming: the early advance for the yield "
             "would let an overflowing append hand the NEXT byte to its handler - or read past the chunk when the cut falls right behind the overflowing byte")
